"""py2coq.extra: further files of /repo/src/tensora regenerated into Gallina on every run.

  identifiable_expression/ast.py (+ Mode, TensorLayer, Context)   -> gen/ExhaustAst.v
  identifiable_expression/_exhaust_tensor.py, _extract_context.py -> gen/Exhaust.v
  iteration_graph/_names.py                                       -> gen/Names.v
  expression/ast.py (deparse, variables, index_participants)      -> gen/Deparse.v
  desugar/ast.py, desugar/_desugar_expression.py                  -> gen/Desugar.v

The hand models (coq/model/{Exhaust,Context,Names,Parser,ExprAst,DesugarSem}.v) are PROVED equal to
these generated definitions in coq/proofs/Gen*_equiv.v (statements: coq/props/TIE.v), so every
theorem about a hand model is a theorem about what the source says now.

Idioms beyond core.py (each one fail-closed: any other shape raises Unsupported); documented in
design.d/TIE.md:

  * Enum classes -> inductives with nullary constructors, `Mode.dense` -> constructor;
  * frozen dataclasses with one constructor -> records: projections `x.f`, methods with arguments
    (`left.add(right)`), keyword constructors, `field(default_factory=list)` / `frozenset()` defaults;
  * methods defined inside the classes of a hierarchy (`deparse`) -> one Fixpoint, one arm per
    concrete class, body taken from the class the method resolves to;
  * partial functions (option monad): `xs[i]`, `try: v = xs.index(x) except ValueError: ...`,
    `raise`, calls of other partial functions; left-to-right evaluation order is kept and a partial
    operation below a short-circuit operator is refused;
  * object identity `v is self.f` where `v = fam(self.f, ...)`: the family returns, beside its
    value, the flag "the result IS the argument object" (see design.d/TIE.md for the argument);
  * `+` on str / list / int, `-` on int, `|` on sets, f-strings, `str(int)`, `sep.join(xs)`;
  * `if` blocks that only re-assign local variables -> `let v := if c then .. else v`;
  * (desugar) an `ids: Iterator[int]` argument -> a counter threaded through (`next(ids)`, `count()`);
    `match` statements with class patterns; `for` loops -> `fold_left` (pure body) or `ofold`
    in the state/option monad; iteration over a SET goes through the order oracle `ord`, keyed by the
    value the counter had on entry to the enclosing function / loop body; set operations on
    duplicate-free lists; comprehensions with tuple targets and several `for`s; `reduce`, `all`;
    `x if v is None else f(v)`; functions that are not structurally recursive take explicit fuel
    (open recursion: `f_body` + one Fixpoint on fuel);
  * (variables / index_participants) dicts as association lists in insertion order: `{}`, `{k: v}`,
    `.get`, `d[k]`, `k in d`, `.keys()`, `.items()`, `.copy()`, `d[k] = v` on an un-aliased local
    dict, `{k: v for k in <set>}`, `enumerate`, set displays, `[*a, *b]`, tail call of a module-level
    helper expanded in place.
"""

from __future__ import annotations

import ast
from dataclasses import dataclass
from pathlib import Path

from .core import (COQ_RENAME, PRELUDE, Ctor, Family, FamilyEmitter, FuncSig, PyClass, Scope,
                   Translator, Universe, Unsupported, is_raise_only, parse_classes,
                   parse_functions)

XPRELUDE = PRELUDE + "From TV Require Import spec.PyLib.\nOpen Scope string_scope.\n"

# identifiers that may not be used as Gallina binders in the generated text
RESERVED = {
    "in", "let", "fun", "match", "end", "with", "as", "at", "if", "then", "else", "return", "using",
    "where", "for", "fix", "cofix", "forall", "exists", "exists2", "Type", "Prop", "Set", "SProp", "mod",
    "map", "fst", "snd", "filter", "existsb", "forallb", "negb", "app", "nil", "cons", "Some", "None",
    "true", "false", "list", "option", "bool", "string", "Z", "F", "nat", "length", "rev", "flat_map",
    "fold_left", "fold_right", "andb", "orb", "pair", "prod", "show_Z", "show_N", "py_join", "py_index",
    "py_getitem", "py_in", "set_union", "set_of_list", "obind", "omap", "pyset", "F0", "F1", "Fmake",
    "Feqb", "list_eqb", "option_eqb", "tt", "unit", "concat", "combine", "seq", "id",
    # constructors of the standard library (a pattern variable of that name would be read as the constructor)
    "left", "right", "inl", "inr", "inleft", "inright", "O", "S", "I", "Lt", "Gt", "Eq", "xH", "xI", "xO",
    "Z0", "Zpos", "Zneg", "N0", "Npos", "String", "EmptyString", "Ascii", "conj", "exist", "ex_intro",
    "eq_refl", "or_introl", "or_intror", "Nil", "D0", "D1", "D2", "D3", "D4", "D5", "D6", "D7", "D8", "D9",
}


def safe(name: str) -> str:
    return name + "_" if name in RESERVED else name


# --------------------------------------------------------------------------------------------
# class tables: enums, records, annotations written as module attributes
# --------------------------------------------------------------------------------------------


def parse_enum(tree: ast.Module, name: str) -> list[str]:
    """Members of `class <name>(Enum)` in source order."""
    for node in tree.body:
        if isinstance(node, ast.ClassDef) and node.name == name:
            if [ast.unparse(b) for b in node.bases] != ["Enum"]:
                raise Unsupported(node, "enum base")
            members = []
            for item in node.body:
                if isinstance(item, ast.Assign) and len(item.targets) == 1 and isinstance(item.targets[0], ast.Name):
                    members.append(item.targets[0].id)
                elif isinstance(item, (ast.FunctionDef, ast.Expr, ast.Pass)):
                    continue
                else:
                    raise Unsupported(item, f"body of enum {name}")
            if not members:
                raise Unsupported(node, "enum without members")
            return members
    raise Unsupported(ast.Constant(name), "enum class not found")


def parse_classes_lenient(tree: ast.Module, only: list[str] | None = None) -> dict[str, PyClass]:
    """parse_classes restricted to the named classes (other classes of the module may use
    constructs the class parser does not know)."""
    sub = ast.Module(body=[n for n in tree.body if isinstance(n, ast.ClassDef) and (only is None or n.name in only)],
                     type_ignores=[])
    return parse_classes(sub)


class XUniverse(Universe):
    def __init__(self):
        super().__init__()
        self.enums: dict[str, list[str]] = {}
        self.ns: str | None = None  # namespace in which bare class names of annotations are looked up first
        self.modules: dict[str, str] = {}  # module alias used in the source -> namespace prefix ("" = none)

    def add_namespaced(self, ns: str, classes: dict[str, PyClass]):
        """Register the classes of a module under the keys "<ns>.<Class>"."""
        for name, k in classes.items():
            self.classes[f"{ns}.{name}"] = PyClass(f"{ns}.{name}", [f"{ns}.{b}" for b in k.bases], k.fields,
                                                   k.is_dataclass, k.methods)

    def add_inductive(self, ind, root, members, prefix="", exclude_root=None):
        super().add_inductive(ind, root, members, prefix, exclude_root)
        for ct in self.inds[ind]:
            bare = ct.pyclass.split(".")[-1]
            ct.coq = COQ_RENAME.get(prefix + bare, prefix + bare)

    def resolve_fields(self):
        for ct in self.ctors.values():
            k = self.classes[ct.pyclass]
            self.ns = ct.pyclass.rsplit(".", 1)[0] if "." in ct.pyclass else None
            try:
                ct.fields = [(fn, self.coq_type(ann)) for fn, ann, _ in k.fields]
            finally:
                self.ns = None

    def add_enum(self, name: str, members: list[str]):
        self.enums[name] = members
        self.root_of[name] = name
        self.inds[name] = [Ctor(f"{name}_{m}", name, [], f"{name}.{m}") for m in members]

    def coq_type(self, ann: ast.expr) -> str:
        if isinstance(ann, ast.Constant) and isinstance(ann.value, str):
            ann = ast.parse(ann.value, mode="eval").body
        if isinstance(ann, ast.Attribute) and isinstance(ann.value, ast.Name):
            # `ast.Expression`, `id.Tensor`: module-qualified class name
            q = self.qualified(ann)
            if q in self.root_of:
                return self.root_of[q]
            return self.coq_type(ast.copy_location(ast.Name(id=q, ctx=ast.Load()), ann))
        if isinstance(ann, ast.Name) and self.ns and f"{self.ns}.{ann.id}" in self.root_of:
            return self.root_of[f"{self.ns}.{ann.id}"]
        if isinstance(ann, ast.Subscript) and isinstance(ann.value, ast.Name):
            if ann.value.id in ("frozenset", "set"):
                return f"(pyset {self.coq_type(ann.slice)})"
            if ann.value.id == "tuple" and isinstance(ann.slice, ast.Tuple) and not any(
                    isinstance(x, ast.Constant) and x.value is Ellipsis for x in ann.slice.elts):
                return "(" + " * ".join(self.coq_type(x) for x in ann.slice.elts) + ")"
            if ann.value.id == "Iterator":
                return f"(iterator {self.coq_type(ann.slice)})"
            if ann.value.id == "dict" and isinstance(ann.slice, ast.Tuple) and len(ann.slice.elts) == 2:
                return f"(pydict {self.coq_type(ann.slice.elts[0])} {self.coq_type(ann.slice.elts[1])})"
        return super().coq_type(ann)

    def qualified(self, a: ast.Attribute) -> str:
        pre = self.modules.get(a.value.id, "") if isinstance(a.value, ast.Name) else ""
        return f"{pre}.{a.attr}" if pre else a.attr

    def eqb_name(self, ty: str) -> str:
        ty = ty.strip()
        if ty.startswith("(pyset "):
            raise Unsupported(ast.Constant(ty), "== on sets is not translated")
        parts = split_product(ty)
        if parts and len(parts) == 2:
            return f"(pair_eqb {self.eqb_name(parts[0])} {self.eqb_name(parts[1])})"
        return super().eqb_name(ty)

    def is_record(self, ind: str) -> bool:
        return ind in self.inds and len(self.inds[ind]) == 1 and ind not in self.enums and not any(
            sup == ind for (_, sup) in self.embed)

    def emit_projections(self, ind: str) -> str:
        ct = self.inds[ind][0]
        out = []
        for i, (fn, ty) in enumerate(ct.fields):
            pat = " ".join("x_" if j == i else "_" for j in range(len(ct.fields)))
            out.append(f"Definition {ind}_{fn} (r_ : {ind}) : {ty} := match r_ with {ct.coq} {pat} => x_ end.")
        return "\n".join(out) + "\n"


def dict_of(ty: str) -> tuple[str, str] | None:
    """(key type, value type) of "(pydict K V)"."""
    if not ty.startswith("(pydict "):
        return None
    inner, depth = ty[len("(pydict "):-1], 0
    for i, ch in enumerate(inner):
        if ch == "(":
            depth += 1
        elif ch == ")":
            depth -= 1
        elif ch == " " and depth == 0:
            return inner[:i], inner[i + 1:]
    return None


def elt_of(ty: str) -> str | None:
    for p in ("(list ", "(pyset "):
        if ty.startswith(p):
            return ty[len(p):-1]
    return None


# --------------------------------------------------------------------------------------------
# scope / translator
# --------------------------------------------------------------------------------------------


@dataclass
class Fx:
    """Effects of a translated function, i.e. the shape of its Gallina type."""
    opt: bool = False  # may raise: result is an option
    state: str | None = None  # name of its `Iterator[int]` argument: takes and returns the counter
    fuel: bool = False  # not structurally recursive: first argument is fuel, out of fuel = None


NOFX = Fx()


class XScope(Scope):
    def __init__(self, tr, self_ctor, self_type, ret, self_name="self", mode="pure", ident=None):
        super().__init__(tr, self_ctor, self_type, ret, self_name)
        self.mode = mode  # "pure" | "option"
        self.ident = ident  # name of the identity-tracked family being translated, or None
        self.pending: list[tuple] = []  # (kind, variable, text, state variable)
        self.origins: dict[str, str] = {}  # variable bound from an identity-tracked call -> dump of its argument
        self.counter = [0]
        self.state: str | None = None  # python name of the counter variable threaded through this body
        self.ret_state = False  # the function returns the counter beside its value
        self.fuel = False  # a variable `fuel` is in scope
        self.entry_key: str | None = None  # variable holding the counter on entry of the enclosing function / loop body
        self.entry_used = [False]
        self.own_dicts: set[str] = set()  # local dicts made by a display / .copy(): item assignment allowed
        self.fallthrough = None  # text producer used when a statement list ends without return (loop bodies)
        self.in_loop = False

    def fresh(self, base="t") -> str:
        self.counter[0] += 1
        return f"{base}_{self.counter[0]}_"

    def take(self):
        p, self.pending = self.pending, []
        return p

    def sub(self, ret, mode="pure"):
        """A scope for a pure sub-block (an `if` that only re-assigns variables)."""
        s = XScope(self.tr, self.self_ctor, self.self_type, ret, self.self_name, mode, None)
        s.types = dict(self.types)
        s.counter = self.counter
        s.own_dicts = set(self.own_dicts)
        return s

    def clone(self, **over):
        s = XScope(self.tr, self.self_ctor, self.self_type, self.ret, self.self_name, self.mode, self.ident)
        s.types = dict(self.types)
        s.origins = dict(self.origins)
        s.counter = self.counter
        s.state, s.ret_state, s.fuel = self.state, self.ret_state, self.fuel
        s.entry_key, s.entry_used = self.entry_key, self.entry_used
        s.fallthrough, s.in_loop = self.fallthrough, self.in_loop
        s.own_dicts = set(self.own_dicts)
        for k, v in over.items():
            setattr(s, k, v)
        return s


def wrap(binds, inner: str) -> str:
    for kind, var, text, st in reversed(binds):
        if kind == "opt":
            inner = f"match {text} with None => None | Some {var} =>\n    {inner} end"
        elif kind == "pair":
            inner = f"let '({var}, {var}_is_arg) := {text} in\n    {inner}"
        elif kind == "st":
            inner = f"let '({var}, {st}) := {text} in\n    {inner}"
        elif kind == "optst":
            inner = f"match {text} with None => None | Some ({var}, {st}) =>\n    {inner} end"
        else:
            raise AssertionError(kind)
    return inner


def is_none(n) -> bool:
    return isinstance(n, ast.Constant) and n.value is None


def unknown(ty: str) -> bool:
    return ty == "_" or ty.endswith("_)")


class XTranslator(Translator):
    def __init__(self, U: XUniverse):
        super().__init__(U)
        self.fx: dict[str, Fx] = {}  # coq function name -> effects
        self.ident: set[str] = set()  # families returning (value, result-is-argument flag)
        self.rmethods: dict[tuple[str, str], str] = {}  # (inductive, method) -> coq function
        self.float_str: str | None = None  # name of the section variable rendering str(float)
        self.summaries: dict[tuple[str, str], tuple[str, str]] = {}  # (type, idiom) -> (coq function, result type)
        self.oracle: str | None = None  # name of the section variable giving the iteration order of sets
        self.open_group: set[str] = set()  # functions being emitted in open-recursion style (called without fuel)
        self.oracle_nokey: str | None = None  # oracle for set iteration where no counter is in scope (keyed by the set only)
        self.inline: dict[str, ast.FunctionDef] = {}  # plain functions expanded at `return f(args)`

    @property
    def partial(self):
        return {n for n, f in self.fx.items() if f.opt}

    # ------------------------------------------------------------------ helpers
    def guarded(self, node, sc: XScope, want=None):
        """Translate an expression that Python evaluates only conditionally: it must not
        contain an effect (that would be hoisted out of the condition)."""
        n = len(sc.pending)
        r = self.expr(node, sc, want)
        if len(sc.pending) != n:
            raise Unsupported(node, "exception-raising / counter-advancing operation under a short-circuit, conditional or lambda")
        return r

    def add_pending(self, sc: XScope, kind: str, base: str, text: str, node) -> str:
        if kind in ("opt", "optst") and sc.mode != "option":
            raise Unsupported(node, "exception-raising operation in a function translated as total")
        if kind in ("st", "optst") and not sc.state:
            raise Unsupported(node, "counter-advancing operation where no counter is in scope")
        v = sc.fresh(base)
        sc.pending.append((kind, v, text, safe(sc.state) if sc.state else None))
        return v

    def coerce(self, t, frm, to):
        if frm == to or to is None or frm == "_":
            return t
        if frm in ("(list _)", "(pyset _)") and (to.startswith("(list ") or to.startswith("(pyset ")):
            return t
        if frm == "(option _)" and to.startswith("(option "):
            return t
        if frm == "(pydict _ _)" and to.startswith("(pydict "):
            return t
        return super().coerce(t, frm, to)

    def unify(self, a, b, node):
        if unknown(a):
            return b
        if unknown(b):
            return a
        return super().unify(a, b, node)

    def class_of_name(self, n):
        if isinstance(n, ast.Attribute) and isinstance(n.value, ast.Name) and n.value.id in self.U.modules:
            q = self.U.qualified(n)
            return q if q in self.U.classes else None
        return super().class_of_name(n)

    def eqb_for(self, ty: str) -> str:
        return self.U.eqb_name(ty)

    def pattern(self, target, ty: str, sc: XScope, node) -> str:
        """Binder pattern for a loop / comprehension target; enters the names into the scope."""
        if isinstance(target, ast.Name):
            sc.types[target.id] = ty
            sc.origins.pop(target.id, None)
            return safe(target.id)
        if isinstance(target, ast.Tuple) and all(isinstance(x, ast.Name) for x in target.elts):
            tys = split_product(ty)
            if tys is None or len(tys) != len(target.elts):
                raise Unsupported(node, "tuple target over non-tuples")
            for x, xt in zip(target.elts, tys):
                sc.types[x.id] = xt
                sc.origins.pop(x.id, None)
            return "'(" + ", ".join(safe(x.id) for x in target.elts) + ")"
        raise Unsupported(node, "loop target")

    def iterable(self, node, sc: XScope) -> tuple[str, str, bool]:
        """(text of a list in iteration order, element type, is a set)."""
        if isinstance(node, ast.Call) and isinstance(node.func, ast.Attribute) and node.func.attr == "items" \
                and not node.args and not node.keywords:
            # a dict iterates in insertion order
            t, ty = self.expr(node.func.value, sc)
            kv = dict_of(ty)
            if kv is None or unknown(ty):
                raise Unsupported(node, ".items() of a non-dict")
            return t, f"({kv[0]} * {kv[1]})", False
        if isinstance(node, ast.Call) and isinstance(node.func, ast.Name) and node.func.id == "enumerate" \
                and len(node.args) == 1 and not node.keywords and "enumerate" not in sc.types:
            t, ty = self.expr(node.args[0], sc)
            if not ty.startswith("(list ") or unknown(ty):
                raise Unsupported(node, "enumerate() of a non-list")
            return f"(py_enumerate {t})", f"(Z * {elt_of(ty)})", False
        t, ty = self.expr(node, sc)
        et = elt_of(ty)
        if et is None or unknown(ty):
            raise Unsupported(node, f"iteration over a value of type {ty}")
        return t, et, ty.startswith("(pyset ")

    def ordered(self, t: str, sc: XScope, node) -> str:
        """A set is iterated in the order given by the oracle."""
        if not sc.entry_key and self.oracle_nokey:
            return f"({self.oracle_nokey} {t})"
        if not self.oracle or not sc.entry_key:
            raise Unsupported(node, "iteration over a set (its order is not determined) outside a function that threads the id counter")
        sc.entry_used[0] = True
        return f"({self.oracle} {sc.entry_key} {t})"

    # ------------------------------------------------------------------ expressions
    def expr(self, e, sc, want=None):
        U = self.U
        if isinstance(e, ast.Name):
            if e.id in sc.types:
                if sc.types[e.id].startswith("(iterator "):
                    raise Unsupported(e, "the iterator may only be passed on or advanced with next()")
                return safe(e.id), sc.types[e.id]
            raise Unsupported(e, "unbound name")
        if isinstance(e, ast.Attribute):
            # enum member
            if isinstance(e.value, ast.Name) and e.value.id in U.enums and e.value.id not in sc.types:
                if e.attr not in U.enums[e.value.id]:
                    raise Unsupported(e, "no such enum member")
                return f"{e.value.id}_{e.attr}", e.value.id
            if isinstance(e.value, ast.Name) and e.value.id == sc.self_name and sc.self_ctor:
                return super().expr(e, sc, want)
            x, xt = self.expr(e.value, sc)
            if U.is_record(xt):  # projection of a record value
                for fn, ty in U.inds[xt][0].fields:
                    if fn == e.attr:
                        return f"({xt}_{fn} {x})", ty
                raise Unsupported(e, "no such field")
            if xt in U.inds and xt not in U.enums:
                # field of a value whose class is one of several: AttributeError on the others
                have = [ct for ct in U.inds[xt] if any(fn == e.attr for fn, _ in ct.fields)]
                tys = {ty for ct in have for fn, ty in ct.fields if fn == e.attr}
                if not have or len(tys) != 1:
                    raise Unsupported(e, "no such field")
                arms = []
                for ct in have:
                    pat = " ".join("x_" if fn == e.attr else "_" for fn, _ in ct.fields)
                    arms.append(f"{ct.coq} {pat} => Some x_")
                if len(have) < len(U.inds[xt]) + sum(1 for (_, sup) in U.embed if sup == xt):
                    arms.append("_ => None")
                v = self.add_pending(sc, "opt", e.attr, f"(match {x} with " + " | ".join(arms) + " end)", e)
                return v, tys.pop()
            raise Unsupported(e, "attribute of a value whose class is not known statically")
        if isinstance(e, ast.BoolOp):
            first = self.expr(e.values[0], sc)
            parts = [first] + [self.guarded(v, sc) for v in e.values[1:]]
            for _, ty in parts:
                self.need(ty, "bool", e)
            op = " && " if isinstance(e.op, ast.And) else " || "
            return "(" + op.join(t for t, _ in parts) + ")", "bool"
        if isinstance(e, ast.IfExp):
            return self.ifexp(e, sc, want)
        if isinstance(e, ast.Compare) and len(e.ops) == 1 and isinstance(e.ops[0], (ast.Is, ast.IsNot)):
            return self.identity_test(e, sc)
        if isinstance(e, ast.Set):
            # {x}, {*a, *b}: the elements as a duplicate-free list
            parts, ety = [], (elt_of(want) if want and elt_of(want) and not unknown(want) else None)
            for x in e.elts:
                if isinstance(x, ast.Starred):
                    t, ty = self.expr(x.value, sc)
                    if elt_of(ty) is None or unknown(ty):
                        raise Unsupported(e, "* of a non-collection")
                    ety = ety or elt_of(ty)
                    if elt_of(ty) != ety:
                        raise Unsupported(e, "set display of mixed types")
                    parts.append(t)
                else:
                    t, ty = self.expr(x, sc, want=ety)
                    ety = ety or ty
                    parts.append(f"[{self.coerce(t, ty, ety)}]")
            if len(parts) == 1 and not isinstance(e.elts[0], ast.Starred):
                return parts[0], f"(pyset {ety})"
            return f"(set_display {U.eqb_name(ety)} (" + " ++ ".join(parts) + ")%list)", f"(pyset {ety})"
        if isinstance(e, ast.DictComp):
            # {k: v for k in <set or list without repetitions>}: one entry per element, in iteration order
            if len(e.generators) != 1 or e.generators[0].is_async or e.generators[0].ifs \
                    or not isinstance(e.generators[0].target, ast.Name) \
                    or not isinstance(e.key, ast.Name) or e.key.id != e.generators[0].target.id:
                raise Unsupported(e, "dict comprehension other than {k: v for k in s}")
            g = e.generators[0]
            src, et, is_set = self.iterable(g.iter, sc)
            if not is_set:
                raise Unsupported(e, "dict comprehension over a list (keys may repeat)")
            src = self.ordered(src, sc, e)
            inner = sc.clone()
            inner.pending = []
            pat = self.pattern(g.target, et, inner, e)
            v, vt = self.guarded(e.value, inner)
            return f"(map (fun {pat} => ({pat}, {v})) {src})", f"(pydict {et} {vt})"
        if isinstance(e, ast.Dict):
            if any(k is None for k in e.keys):
                raise Unsupported(e, "dict display with **")
            kv = dict_of(want) if want else None
            if not e.keys:
                return "nil", (want if kv else "(pydict _ _)")
            items, kt, vt = [], (kv[0] if kv else None), (kv[1] if kv else None)
            for k, v in zip(e.keys, e.values):
                a, at = self.expr(k, sc, want=kt)
                b, bt = self.expr(v, sc, want=vt)
                kt, vt = kt or at, vt or bt
                items.append(f"({self.coerce(a, at, kt)}, {self.coerce(b, bt, vt)})")
            if len(e.keys) > 1:
                raise Unsupported(e, "dict display with several keys (a repeated key would overwrite)")
            return "[" + "; ".join(items) + "]", f"(pydict {kt} {vt})"
        if isinstance(e, ast.Compare) and len(e.ops) == 1 and isinstance(e.ops[0], (ast.In, ast.NotIn)):
            x, xt = self.expr(e.left, sc)
            s, st = self.expr(e.comparators[0], sc)
            if dict_of(st):
                if dict_of(st)[0] != xt:
                    raise Unsupported(e, "membership test")
                t = f"(dict_mem {U.eqb_name(xt)} {x} {s})"
                return (t if isinstance(e.ops[0], ast.In) else f"(negb {t})"), "bool"
            et = elt_of(st)
            if et is None or et != xt:
                raise Unsupported(e, "membership test")
            t = f"(py_in {U.eqb_name(xt)} {x} {s})"
            return (t if isinstance(e.ops[0], ast.In) else f"(negb {t})"), "bool"
        if isinstance(e, ast.Compare) and len(e.ops) == 1 and isinstance(
                e.ops[0], (ast.Lt, ast.LtE, ast.Gt, ast.GtE)):
            l, lt = self.expr(e.left, sc)
            r, rt = self.expr(e.comparators[0], sc)
            self.need(lt, "Z", e)
            self.need(rt, "Z", e)
            op = {ast.Lt: "<?", ast.LtE: "<=?", ast.Gt: ">?", ast.GtE: ">=?"}[type(e.ops[0])]
            return f"({l} {op} {r})%Z", "bool"
        if isinstance(e, ast.BinOp):
            l, lt = self.expr(e.left, sc, want)
            r, rt = self.expr(e.right, sc, want=lt if not unknown(lt) else want)
            if unknown(lt) and not unknown(rt):
                lt = rt
            if unknown(rt):
                rt = lt
            if isinstance(e.op, ast.Add):
                if lt == rt == "string":
                    return f"({l} ++ {r})", "string"
                if lt == rt and lt.startswith("(list "):
                    return f"({l} ++ {r})%list", lt
                if lt == rt == "Z":
                    return f"({l} + {r})%Z", "Z"
            if isinstance(e.op, ast.Sub) and lt == rt == "Z":
                return f"({l} - {r})%Z", "Z"
            if isinstance(e.op, ast.Mult) and lt == rt == "Z":
                return f"({l} * {r})%Z", "Z"
            if isinstance(e.op, ast.BitOr) and lt == rt and lt.startswith("(pyset "):
                return f"(set_union {U.eqb_name(elt_of(lt))} {l} {r})", lt
            if isinstance(e.op, ast.Sub) and lt.startswith("(pyset ") and elt_of(rt) == elt_of(lt):
                return f"(set_diff {U.eqb_name(elt_of(lt))} {l} {r})", lt
            if isinstance(e.op, ast.BitAnd) and lt.startswith("(pyset ") and elt_of(rt) == elt_of(lt):
                return f"(set_inter {U.eqb_name(elt_of(lt))} {l} {r})", lt
            raise Unsupported(e, f"binary operator on {lt}, {rt}")
        if isinstance(e, ast.JoinedStr):
            parts = []
            for v in e.values:
                if isinstance(v, ast.Constant) and isinstance(v.value, str):
                    if v.value:
                        parts.append(self.expr(v, sc)[0])
                elif isinstance(v, ast.FormattedValue) and v.conversion == -1 and v.format_spec is None:
                    parts.append(self.to_str(v.value, sc))
                else:
                    raise Unsupported(e, "f-string piece")
            if not parts:
                return '""%string', "string"
            if len(parts) == 1:
                return parts[0], "string"
            return "(" + " ++ ".join(parts) + ")", "string"
        if isinstance(e, ast.Subscript) and not isinstance(e.slice, ast.Slice):
            x, xt = self.expr(e.value, sc)
            if dict_of(xt) and not unknown(xt):
                k, kt = self.expr(e.slice, sc, want=dict_of(xt)[0])
                self.need(kt, dict_of(xt)[0], e)
                v = self.add_pending(sc, "opt", "item", f"dict_get {U.eqb_name(kt)} {k} {x}", e)  # KeyError
                return v, dict_of(xt)[1]
            if not xt.startswith("(list "):
                raise Unsupported(e, "subscript of a value that is neither list nor dict")
            i, it = self.expr(e.slice, sc)
            self.need(it, "Z", e)
            v = self.add_pending(sc, "opt", "item", f"py_getitem {x} {i}", e)
            return v, elt_of(xt)
        if isinstance(e, ast.List) and any(isinstance(x, ast.Starred) for x in e.elts):
            # [*a, x, *b]
            parts, ety = [], (elt_of(want) if want and elt_of(want) else None)
            for x in e.elts:
                if isinstance(x, ast.Starred):
                    t, ty = self.expr(x.value, sc, want=f"(list {ety})" if ety else None)
                    if not ty.startswith("(list ") or unknown(ty):
                        raise Unsupported(e, "* of a non-list")
                    ety = ety or elt_of(ty)
                    if elt_of(ty) != ety:
                        raise Unsupported(e, "list display of mixed types")
                    parts.append(t)
                else:
                    t, ty = self.expr(x, sc, want=ety)
                    ety = ety or ty
                    parts.append(f"[{self.coerce(t, ty, ety)}]")
            return "(" + " ++ ".join(parts) + ")%list", f"(list {ety})"
        if isinstance(e, ast.Subscript):
            x, xt = self.expr(e.value, sc)
            if not xt.startswith("(list "):
                raise Unsupported(e, "subscript of a non-list")
            if isinstance(e.slice, ast.Slice):
                raise Unsupported(e, "slice")
            i, it = self.expr(e.slice, sc)
            self.need(it, "Z", e)
            v = self.add_pending(sc, "opt", "item", f"py_getitem {x} {i}", e)
            return v, elt_of(xt)
        if isinstance(e, ast.Tuple):
            parts = [self.expr(x, sc) for x in e.elts]
            if len(parts) < 2:
                raise Unsupported(e, "tuple")
            return "(" + ", ".join(t for t, _ in parts) + ")", "(" + " * ".join(ty for _, ty in parts) + ")"
        if isinstance(e, ast.List) and e.elts and want and elt_of(want):
            parts = [self.expr(x, sc, want=elt_of(want)) for x in e.elts]
            ty = elt_of(want)
            return "[" + "; ".join(self.coerce(t, tt, ty) for t, tt in parts) + "]", f"(list {ty})"
        if isinstance(e, ast.ListComp):
            return self.comprehension(e, sc)
        if isinstance(e, ast.SetComp):
            # {x for x in s if c}: a subset of s, whatever the iteration order
            if len(e.generators) != 1 or not isinstance(e.generators[0].target, ast.Name) \
                    or not isinstance(e.elt, ast.Name) or e.elt.id != e.generators[0].target.id:
                raise Unsupported(e, "set comprehension other than {x for x in s if c}")
            g = e.generators[0]
            t, ty = self.expr(g.iter, sc)
            if not ty.startswith("(pyset "):
                raise Unsupported(e, "set comprehension over a non-set")
            inner = sc.clone()
            inner.pending = []
            inner.types[g.target.id] = elt_of(ty)
            for cond in g.ifs:
                c, cty = self.guarded(cond, inner)
                self.need(cty, "bool", e)
                t = f"(filter (fun {safe(g.target.id)} => {c}) {t})"
            return t, ty
        return super().expr(e, sc, want)

    def ifexp(self, e: ast.IfExp, sc: XScope, want):
        # `a if v is None else f(v)`: in the other branch v is the object itself
        t = e.test
        if isinstance(t, ast.Compare) and len(t.ops) == 1 and isinstance(t.ops[0], (ast.Is, ast.IsNot)) \
                and isinstance(t.left, ast.Name) and is_none(t.comparators[0]) \
                and sc.types.get(t.left.id, "").startswith("(option "):
            v = t.left.id
            vt = sc.types[v]
            inner = vt[len("(option "):-1]
            none_branch, some_branch = (e.body, e.orelse) if isinstance(t.ops[0], ast.Is) else (e.orelse, e.body)
            a, at = self.guarded(none_branch, sc, want)
            sc.types[v] = inner
            try:
                b, bt = self.guarded(some_branch, sc, want or at)
            finally:
                sc.types[v] = vt
            ty = self.unify(at, bt, e)
            return (f"(match {safe(v)} with None => {self.coerce(a, at, ty)} | Some {safe(v)} => "
                    f"{self.coerce(b, bt, ty)} end)"), ty
        c, cty = self.expr(e.test, sc)
        self.need(cty, "bool", e)
        a, at = self.guarded(e.body, sc, want)
        b, bt = self.guarded(e.orelse, sc, want or at)
        ty = self.unify(at, bt, e)
        return f"(if {c} then {self.coerce(a, at, ty)} else {self.coerce(b, bt, ty)})", ty

    def comprehension(self, e, sc: XScope):
        """[elt for t1 in it1 (if c)* for t2 in it2 ...] -> map / flat_map / filter; when the element
        expression has effects (single `for`): a local fix in the state / option monad."""
        gens = e.generators
        if any(g.is_async for g in gens):
            raise Unsupported(e, "async comprehension")
        inner = sc.clone()
        inner.pending = []
        layers = []  # (pattern, source text)
        for gi, g in enumerate(gens):
            n0 = len(inner.pending)
            src, et, is_set = self.iterable(g.iter, inner)
            if gi == 0:
                # the first iterable is evaluated once, in the enclosing scope: its effects are ours
                sc.pending.extend(inner.pending[n0:])
                del inner.pending[n0:]
            elif len(inner.pending) != n0:
                raise Unsupported(e, "effect in the iterable of an inner `for` of a comprehension")
            if is_set:
                src = self.ordered(src, sc, e)
            pat = self.pattern(g.target, et, inner, e)
            for cond in g.ifs:
                c, cty = self.guarded(cond, inner)
                self.need(cty, "bool", e)
                src = f"(filter (fun {pat} => {c}) {src})"
            layers.append((pat, src))
            ety = et
        body, bty = self.expr(e.elt, inner)
        eff = inner.take()
        if eff:
            if len(layers) != 1:
                raise Unsupported(e, "effects in a comprehension with several `for`s")
            pat, src = layers[0]
            st = safe(sc.state) if sc.state and any(k[0] in ("st", "optst") for k in eff) else None
            opt = sc.mode == "option"
            if not opt:
                raise Unsupported(e, "effects in a comprehension of a function translated as total")
            if st:
                fx = f"omap_st (fun (x_ : {ety}) ({st} : Z) => let {pat} := x_ in {wrap(eff, f'Some ({body}, {st})')}) {src} {st}"
                r = self.add_pending(sc, "optst", "items", fx, e)
            else:
                fx = f"omap (fun (x_ : {ety}) => let {pat} := x_ in {wrap(eff, f'Some ({body})')}) {src}"
                r = self.add_pending(sc, "opt", "items", fx, e)
            return r, f"(list {bty})"
        pat, src = layers[-1]
        text = f"(map (fun {pat} => {body}) {src})"
        for pat, src in reversed(layers[:-1]):
            text = f"(flat_map (fun {pat} => {text}) {src})"
        return text, f"(list {bty})"

    def to_str(self, node, sc) -> str:
        t, ty = self.expr(node, sc)
        if ty == "string":
            return t
        if ty == "Z":
            return f"(show_Z {t})"
        if ty == "F" and self.float_str:
            return f"({self.float_str} {t})"
        raise Unsupported(node, f"str() of a value of type {ty}")

    def identity_test(self, e: ast.Compare, sc: XScope):
        neg = isinstance(e.ops[0], ast.IsNot)
        a, b = e.left, e.comparators[0]
        for x, y in ((a, b), (b, a)):
            if isinstance(x, ast.Name) and x.id in sc.origins and sc.origins[x.id] == ast.dump(y):
                t = f"{safe(x.id)}_is_arg"
                return (f"(negb {t})" if neg else t), "bool"
        # `x is None`
        for x, y in ((a, b), (b, a)):
            if is_none(y):
                t, ty = self.expr(x, sc)
                if ty.startswith("(option "):
                    r = f"match {t} with None => true | Some _ => false end"
                    return (f"(negb ({r}))" if neg else f"({r})"), "bool"
        raise Unsupported(e, "identity test other than `v is <argument of the call that produced v>`")

    def call_known(self, name: str, arg_nodes, sc: XScope, node, first: list[str] | None = None):
        """Call of a translated function: arguments left to right, then the effects of the call."""
        sig = self.sigs[name]
        fx = self.fx.get(name, NOFX)
        first = first or []
        params = sig.params[len(first):]
        if len(arg_nodes) != len(params):
            raise Unsupported(node, "arity")
        texts = list(first)
        for a, (pn, pt) in zip(arg_nodes, params):
            if pt.startswith("(iterator "):
                if not (isinstance(a, ast.Name) and a.id == sc.state):
                    raise Unsupported(node, "an iterator argument must be the iterator of the calling function")
                texts.append(safe(a.id))
                continue
            t, tt = self.expr(a, sc, want=pt)
            texts.append(self.coerce(t, tt, pt))
        head = sig.name
        if fx.fuel and name not in self.open_group:
            if not sc.fuel:
                raise Unsupported(node, "call of a fuelled function where no fuel is in scope")
            head += " fuel"
        text = f"{head} {' '.join(texts)}".strip()
        if name in self.ident:
            v = self.add_pending(sc, "pair", "r", text, node)
            sc.origins[v] = ast.dump(arg_nodes[0])
            return v, sig.ret
        if fx.opt or fx.state:
            kind = "optst" if (fx.opt and fx.state) else ("opt" if fx.opt else "st")
            v = self.add_pending(sc, kind, "r", text, node)
            return v, sig.ret
        return f"({text})", sig.ret

    def call(self, e: ast.Call, sc, want):
        U = self.U
        f = e.func
        if isinstance(f, ast.Name) and f.id not in sc.types and not e.keywords:
            if f.id == "str" and len(e.args) == 1:
                return self.to_str(e.args[0], sc), "string"
            if f.id in ("frozenset", "set", "list") and not e.args:
                return "nil", want or ("(list _)" if f.id == "list" else "(pyset _)")
            if f.id in ("set", "frozenset") and len(e.args) == 1:
                x, xt = self.expr(e.args[0], sc)
                if xt.startswith("(pyset "):
                    return x, xt
                if xt.startswith("(list ") and not unknown(xt):
                    return f"(set_of_list {U.eqb_name(elt_of(xt))} {x})", f"(pyset {elt_of(xt)})"
                raise Unsupported(e, "set() of a non-list")
            if f.id == "next" and len(e.args) == 1:
                a = e.args[0]
                if not (isinstance(a, ast.Name) and a.id == sc.state):
                    raise Unsupported(e, "next() of something other than the threaded iterator")
                s = safe(a.id)
                return self.add_pending(sc, "st", "next", f"({s}, ({s} + 1)%Z)", e), "Z"
            if f.id in ("all", "any") and len(e.args) == 1 and isinstance(e.args[0], ast.GeneratorExp):
                g = e.args[0]
                if len(g.generators) != 1 or g.generators[0].is_async:
                    raise Unsupported(e, "generator shape")
                gen = g.generators[0]
                # the result does not depend on the order: a set may be iterated without the oracle
                src, et, _ = self.iterable(gen.iter, sc)
                inner = sc.clone()
                inner.pending = []
                pat = self.pattern(gen.target, et, inner, e)
                for cond in gen.ifs:
                    c, cty = self.guarded(cond, inner)
                    self.need(cty, "bool", e)
                    src = f"(filter (fun {pat} => {c}) {src})"
                b, bt = self.guarded(g.elt, inner)
                self.need(bt, "bool", e)
                return f"({'forallb' if f.id == 'all' else 'existsb'} (fun {pat} => {b}) {src})", "bool"
            if f.id == "reduce" and len(e.args) == 2:
                cn = self.class_of_name(e.args[0])
                if cn is None or cn not in U.ctors or len(U.ctors[cn].fields) != 2 or any(
                        ty != U.ctors[cn].ind for _, ty in U.ctors[cn].fields):
                    raise Unsupported(e, "reduce() with a function other than a binary constructor")
                xs, xt = self.expr(e.args[1], sc, want=f"(list {U.ctors[cn].ind})")
                if xt != f"(list {U.ctors[cn].ind})":
                    raise Unsupported(e, "reduce() over a list of another type")
                # TypeError on an empty list
                return self.add_pending(sc, "opt", "red", f"py_reduce {U.ctors[cn].coq} {xs}", e), U.ctors[cn].ind
        if isinstance(f, ast.Name) and f.id == "field" and not e.args and len(e.keywords) == 1 \
                and e.keywords[0].arg == "default_factory" and isinstance(e.keywords[0].value, ast.Name) \
                and e.keywords[0].value.id in ("list", "set", "frozenset"):
            return "nil", want or "(list _)"
        # sep.join(xs)
        if isinstance(f, ast.Attribute) and f.attr == "join" and isinstance(f.value, ast.Constant) \
                and isinstance(f.value.value, str) and len(e.args) == 1 and not e.keywords:
            xs, xt = self.expr(e.args[0], sc)
            self.need(xt, "(list string)", e)
            return f"(py_join {self.expr(f.value, sc)[0]} {xs})", "string"
        # d.get(k, default)
        if isinstance(f, ast.Attribute) and f.attr == "get" and len(e.args) == 2 and not e.keywords:
            n0 = len(sc.pending)
            try:
                x, xt = self.expr(f.value, sc)
            except Unsupported:
                del sc.pending[n0:]
                x, xt = None, ""
            if x is not None and dict_of(xt):
                kt0, vt0 = dict_of(xt)
                k, kt = self.expr(e.args[0], sc, want=None if kt0 == "_" else kt0)
                d, dty = self.guarded(e.args[1], sc, want=None if vt0 == "_" else vt0)
                vt = dty if vt0 == "_" else vt0
                return f"(dict_get_or {U.eqb_name(kt)} {k} {x} {d})", vt
            del sc.pending[n0:]
        # d.copy(), d.keys(): values are immutable here, a copy is the value itself
        if isinstance(f, ast.Attribute) and f.attr in ("copy", "keys") and not e.args and not e.keywords \
                and not (f.attr == "keys" and isinstance(f.value, ast.Call) and isinstance(f.value.func, ast.Attribute)
                         and any(k[1] == f"{f.value.func.attr}().keys()" for k in self.summaries)):
            n0 = len(sc.pending)
            try:
                x, xt = self.expr(f.value, sc)
            except Unsupported:
                del sc.pending[n0:]
                x, xt = None, ""
            if x is not None and dict_of(xt) and not unknown(xt):
                if f.attr == "copy":
                    return x, xt
                return f"(map fst {x})", f"(list {dict_of(xt)[0]})"
            del sc.pending[n0:]
        # summarised idiom  E.index_participants().keys()
        if isinstance(f, ast.Attribute) and f.attr == "keys" and not e.args and not e.keywords \
                and isinstance(f.value, ast.Call) and isinstance(f.value.func, ast.Attribute) \
                and not f.value.args and not f.value.keywords:
            idiom = f"{f.value.func.attr}().keys()"
            if any(k[1] == idiom for k in self.summaries):
                x, xt = self.expr(f.value.func.value, sc)
                if (xt, idiom) not in self.summaries:
                    raise Unsupported(e, f"no summary of {idiom} on {xt}")
                fn, rt = self.summaries[(xt, idiom)]
                return f"({fn} {x})", rt
        # set methods
        if isinstance(f, ast.Attribute) and f.attr in ("intersection", "difference") and len(e.args) == 1 and not e.keywords:
            x, xt = self.expr(f.value, sc)
            if xt.startswith("(pyset ") and not unknown(xt):
                y, yt = self.expr(e.args[0], sc, want=xt)
                if elt_of(yt) != elt_of(xt) and not unknown(yt):
                    raise Unsupported(e, "set operation between different element types")
                op = "set_inter" if f.attr == "intersection" else "set_diff"
                return f"({op} {U.eqb_name(elt_of(xt))} {x} {y})", xt
            raise Unsupported(e, f".{f.attr} on a non-set")
        # set().union(*(g(x) for x in xs)): all elements of the lists g(x), as a set
        if isinstance(f, ast.Attribute) and f.attr == "union" and isinstance(f.value, ast.Call) \
                and isinstance(f.value.func, ast.Name) and f.value.func.id == "set" and not f.value.args \
                and len(e.args) == 1 and isinstance(e.args[0], ast.Starred) \
                and isinstance(e.args[0].value, ast.GeneratorExp) and not e.keywords:
            g = e.args[0].value
            lc = ast.copy_location(ast.ListComp(elt=g.elt, generators=g.generators), g)
            n = len(sc.pending)
            t, ty = self.comprehension(lc, sc)
            if len(sc.pending) != n:
                raise Unsupported(e, "effects in the argument of union()")
            et = elt_of(elt_of(ty) or "")
            if et is None:
                raise Unsupported(e, "union() of non-collections")
            return f"(set_of_list {U.eqb_name(et)} (List.concat {t}))", f"(pyset {et})"
        # calls of translated functions
        if isinstance(f, ast.Name) and f.id in self.sigs and f.id not in sc.types:
            if e.keywords:
                raise Unsupported(e, "keyword arguments")
            return self.call_known(f.id, e.args, sc, e)
        # method call on a value: record methods / methods of a class hierarchy
        if isinstance(f, ast.Attribute) and not e.keywords and self.class_of_name(f) is None \
                and any(m == f.attr for (_, m) in self.rmethods):
            x, xt = self.expr(f.value, sc)
            key = (xt, f.attr)
            if key not in self.rmethods:
                raise Unsupported(e, f"no translated method {f.attr} on {xt}")
            return self.call_known(self.rmethods[key], e.args, sc, e, first=[x])
        return super().call(e, sc, want)

    # ------------------------------------------------------------------ statements
    def ret_wrap(self, t: str, node, sc: XScope) -> str:
        if sc.in_loop:
            raise Unsupported(node, "return inside a translated loop")
        if sc.ident:
            flag = self.ident_flag(node, sc)
            t = f"({t}, {flag})"
        if sc.ret_state:
            t = f"({t}, {safe(sc.state)})"
        if sc.mode == "option":
            t = f"Some ({t})"
        return t

    def ident_flag(self, node, sc: XScope) -> str:
        """Is the returned object the `self` argument?  (design.d/TIE.md, section `is`)"""
        if isinstance(node, ast.Name) and node.id == sc.self_name:
            return "true"
        if isinstance(node, ast.Name) and node.id in sc.origins:
            arg = sc.origins[node.id]
            if arg == ast.dump(ast.Name(id=sc.self_name, ctx=ast.Load())):
                return f"{safe(node.id)}_is_arg"
            if self.is_self_field(arg, sc):
                return "false"  # a proper sub-object of self, or an object made by the call
        if isinstance(node, ast.Attribute) and isinstance(node.value, ast.Name) and node.value.id == sc.self_name:
            return "false"  # a proper sub-object of self
        if isinstance(node, ast.Call) and self.class_of_name(node.func) in self.U.ctors:
            return "false"  # a newly made object
        raise Unsupported(node, "cannot decide whether the returned object is the argument")

    def is_self_field(self, dump: str, sc: XScope) -> bool:
        if not sc.self_ctor:
            return False
        for fn, _ in sc.self_ctor.fields:
            if dump == ast.dump(ast.Attribute(value=ast.Name(id=sc.self_name, ctx=ast.Load()), attr=fn, ctx=ast.Load())):
                return True
        return False

    def fail(self, node, sc: XScope) -> str:
        if sc.mode == "option":
            return "None"
        raise Unsupported(node, "raise in a function translated as total")

    def assigned_names(self, stmts) -> list[str] | None:
        """Names assigned by a block that consists only of assignments (and such ifs)."""
        out: list[str] = []
        for s in stmts:
            if isinstance(s, ast.Assign) and len(s.targets) == 1 and isinstance(s.targets[0], ast.Name):
                if s.targets[0].id not in out:
                    out.append(s.targets[0].id)
            elif isinstance(s, ast.If):
                a, b = self.assigned_names(s.body), self.assigned_names(s.orelse)
                if a is None or b is None:
                    return None
                for n in a + b:
                    if n not in out:
                        out.append(n)
            elif isinstance(s, ast.Pass):
                continue
            else:
                return None
        return out

    def all_assigned(self, stmts) -> list[str]:
        """Every name a block may (re)bind, in order of first appearance."""
        out: list[str] = []

        def add(n):
            if n not in out:
                out.append(n)

        for s in stmts:
            for node in ast.walk(s):
                if isinstance(node, (ast.Assign, ast.AnnAssign, ast.AugAssign)):
                    tg = node.targets if isinstance(node, ast.Assign) else [node.target]
                    for t in tg:
                        if isinstance(t, ast.Subscript):
                            if isinstance(t.value, ast.Name):
                                add(t.value.id)
                            continue
                        for x in ast.walk(t):
                            if isinstance(x, ast.Name):
                                add(x.id)
                elif isinstance(node, ast.For):
                    for x in ast.walk(node.target):
                        if isinstance(x, ast.Name):
                            add(x.id)
                elif isinstance(node, (ast.NamedExpr, ast.With, ast.Try, ast.While, ast.Delete, ast.Global, ast.Nonlocal)):
                    raise Unsupported(node, "statement inside a loop")
        return out

    def has_effects(self, stmts, sc: XScope) -> bool:
        for s in stmts:
            for node in ast.walk(s):
                if isinstance(node, (ast.Raise, ast.Return)) or (
                        isinstance(node, ast.Subscript) and isinstance(node.ctx, ast.Load)):
                    return True
                if isinstance(node, ast.Call):
                    f = node.func
                    if isinstance(f, ast.Name) and f.id in ("next", "reduce"):
                        return True
                    name = f.id if isinstance(f, ast.Name) else None
                    if isinstance(f, ast.Attribute):
                        cands = [v for (k, m), v in self.rmethods.items() if m == f.attr]
                        if any(self.fx.get(c, NOFX) != NOFX for c in cands):
                            return True
                    if name in self.sigs and (self.fx.get(name, NOFX) != NOFX or name in self.ident):
                        return True
        return False

    def body(self, stmts, sc: XScope) -> str:
        if not stmts:
            if sc.fallthrough is not None:
                return sc.fallthrough(sc)
            raise Unsupported(ast.Pass(), "function body may fall off the end")
        s, rest = stmts[0], stmts[1:]
        if isinstance(s, ast.Expr) and isinstance(s.value, ast.Constant) and isinstance(s.value.value, str):
            return self.body(rest, sc)
        if isinstance(s, ast.Pass):
            return self.body(rest, sc)
        if isinstance(s, ast.Return):
            if rest:
                raise Unsupported(s, "code after return")
            if s.value is None:
                raise Unsupported(s, "bare return")
            if isinstance(s.value, ast.Call) and isinstance(s.value.func, ast.Name) and s.value.func.id in self.inline \
                    and s.value.func.id not in sc.types:
                return self.inline_tail(s.value, sc)
            t, ty = self.expr(s.value, sc, want=sc.ret)
            if sc.ret and not sc.ret.startswith("(option ") and ty.startswith("(option ") and (
                    unknown(ty) or ty == f"(option {sc.ret})"):
                # the function is declared to return an object but this value may be None
                t, ty = self.add_pending(sc, "opt", "some", t, s), sc.ret
            binds = sc.take()
            return wrap(binds, self.ret_wrap(self.coerce(t, ty, sc.ret), s.value, sc))
        if isinstance(s, ast.Raise):
            return self.fail(s, sc)
        if isinstance(s, ast.AnnAssign) and isinstance(s.target, ast.Name) and s.value is not None:
            s = ast.copy_location(ast.Assign(targets=[s.target], value=s.value), s)
        if isinstance(s, ast.Assign) and len(s.targets) == 1 and isinstance(s.targets[0], ast.Name):
            name = s.targets[0].id
            if name == sc.self_name:
                raise Unsupported(s, "assignment to self")
            # ids = count()
            if isinstance(s.value, ast.Call) and isinstance(s.value.func, ast.Name) and s.value.func.id == "count" \
                    and not s.value.args and not s.value.keywords:
                if sc.state or name in sc.types:
                    raise Unsupported(s, "a second counter")
                sc.state = name
                sc.types[name] = "(iterator Z)"
                sc.entry_key = f"{safe(name)}_entry_"
                k = self.body(rest, sc)
                return f"let {safe(name)} := 0%Z in\n    let {sc.entry_key} := {safe(name)} in\n    {k}"
            if sc.types.get(name, "").startswith("(iterator "):
                raise Unsupported(s, "assignment to the iterator")
            old = sc.types.get(name)
            t, ty = self.expr(s.value, sc, want=old)
            binds = sc.take()
            sc.origins.pop(name, None)
            sc.own_dicts.discard(name)
            if dict_of(ty):
                v = s.value
                if isinstance(v, ast.Dict) or (isinstance(v, ast.Call) and isinstance(v.func, ast.Attribute) and v.func.attr == "copy"):
                    sc.own_dicts.add(name)  # a new dict object, known under this name only
                elif isinstance(v, ast.Name):
                    raise Unsupported(s, "a second name for a dict (item assignment through one would change the other)")
            if old and old.startswith("(option ") and not ty.startswith("(option "):
                # a variable that was None so far now holds an object
                inner = old[len("(option "):-1]
                if inner != "_" and inner != ty:
                    raise Unsupported(s, f"variable {name} changes type")
                t, ty = f"(Some {t})", f"(option {ty})"
            if binds and binds[-1][1] == t:
                # the value IS the result of the last bind: bind the python name directly
                kind, v, text, st = binds.pop()
                binds.append((kind, safe(name), text, st))
                if v in sc.origins:
                    sc.origins[name] = sc.origins.pop(v)
                sc.types[name] = ty
                return wrap(binds, self.body(rest, sc))
            if ty == "(pydict _ _)" and sc.ret and dict_of(sc.ret) and not unknown(sc.ret) and any(
                    isinstance(r, ast.Return) and isinstance(r.value, ast.Name) and r.value.id == name for r in rest):
                ty = sc.ret  # `d = {}` ... `return d`: the declared return type
            if unknown(ty) and ty not in ("(option _)", "(pydict _ _)"):
                raise Unsupported(s, "cannot infer the type of the assigned value")
            sc.types[name] = ty
            k = self.body(rest, sc)
            return wrap(binds, f"let {safe(name)} := {t} in\n    {k}")
        if isinstance(s, ast.Assign) and len(s.targets) == 1 and isinstance(s.targets[0], ast.Subscript) \
                and isinstance(s.targets[0].value, ast.Name) and not isinstance(s.targets[0].slice, ast.Slice):
            # d[k] = v on a local dict that no other name refers to
            d = s.targets[0].value.id
            dt = sc.types.get(d, "")
            if not dict_of(dt) or d not in sc.own_dicts:
                raise Unsupported(s, "item assignment other than to a local dict made by a display or .copy()")
            if unknown(dt):  # made by `{}`: the first store tells the types
                k, kt = self.expr(s.targets[0].slice, sc)
                v, vt = self.expr(s.value, sc)
                if unknown(kt) or unknown(vt):
                    raise Unsupported(s, "cannot infer the type of the dict")
                dt = sc.types[d] = f"(pydict {kt} {vt})"
            else:
                k, kt = self.expr(s.targets[0].slice, sc, want=dict_of(dt)[0])
                self.need(kt, dict_of(dt)[0], s)
                v, vt = self.expr(s.value, sc, want=dict_of(dt)[1])
            binds = sc.take()
            v = self.coerce(v, vt, dict_of(dt)[1])
            rest_text = self.body(rest, sc)
            return wrap(binds, f"let {safe(d)} := dict_set {self.U.eqb_name(kt)} {k} {v} {safe(d)} in\n    {rest_text}")
        if isinstance(s, ast.Assign) and len(s.targets) == 1 and isinstance(s.targets[0], ast.Tuple) \
                and all(isinstance(x, ast.Name) for x in s.targets[0].elts):
            t, ty = self.expr(s.value, sc)
            binds = sc.take()
            pat = self.pattern(s.targets[0], ty, sc, s)
            k = self.body(rest, sc)
            return wrap(binds, f"let {pat} := {t} in\n    {k}")
        if isinstance(s, ast.If):
            c, cty = self.expr(s.test, sc)
            self.need(cty, "bool", s)
            binds = sc.take()
            names = self.assigned_names(list(s.body) + list(s.orelse))
            if names is not None and names and not self.has_effects(list(s.body) + list(s.orelse), sc):
                # the if only re-assigns local variables
                for n in names:
                    if n not in sc.types:
                        # must then be assigned on both paths
                        a, b = self.assigned_names(s.body) or [], self.assigned_names(s.orelse) or []
                        if not (n in a and n in b):
                            raise Unsupported(s, f"variable {n} assigned on one path only")
                tup = ast.Tuple(elts=[ast.Name(id=n, ctx=ast.Load()) for n in names], ctx=ast.Load()) \
                    if len(names) > 1 else ast.Name(id=names[0], ctx=ast.Load())
                ret = ast.Return(value=tup)
                s1 = sc.sub(None)
                a = self.body(list(s.body) + [ret], s1)
                tys1 = dict(s1.types)
                s2 = sc.sub(None)
                b = self.body(list(s.orelse) + [ret], s2)
                for n in names:
                    if tys1[n] != s2.types[n]:
                        raise Unsupported(s, f"variable {n} has different types on the two paths")
                    sc.types[n] = tys1[n]
                    sc.origins.pop(n, None)
                pat = safe(names[0]) if len(names) == 1 else "'(" + ", ".join(safe(n) for n in names) + ")"
                k = self.body(rest, sc)
                return wrap(binds, f"let {pat} := (if {c} then {a} else {b}) in\n    {k}")
            saved, saved_o, saved_s = dict(sc.types), dict(sc.origins), sc.state
            a = self.body(list(s.body) + ([] if self.returns(s.body) else rest), sc)
            sc.types, sc.origins, sc.state = dict(saved), dict(saved_o), saved_s
            if s.orelse:
                b = self.body(list(s.orelse) + ([] if self.returns(s.orelse) else rest), sc)
            else:
                b = self.body(rest, sc)
            sc.types, sc.origins, sc.state = saved, saved_o, saved_s
            return wrap(binds, f"if {c} then {a}\n    else {b}")
        if isinstance(s, ast.Try):
            return self.try_index(s, rest, sc)
        if isinstance(s, ast.For):
            return self.for_loop(s, rest, sc)
        if isinstance(s, ast.Match):
            return self.match_stmt(s, rest, sc)
        raise Unsupported(s, "statement")

    def inline_tail(self, call: ast.Call, sc: XScope) -> str:
        """`return f(a, b)` with f a plain helper: f's body, its arguments let-bound (this keeps a
        method that recurses through the helper structurally recursive)."""
        fn = self.inline[call.func.id]
        if call.keywords or len(call.args) != len(fn.args.args) or fn.args.kwonlyargs or fn.args.vararg \
                or fn.args.kwarg or fn.args.defaults or fn.decorator_list:
            raise Unsupported(call, "call of an inlined helper")
        lets = []
        inner = sc.clone()
        inner.pending = []
        inner.types = {}
        inner.origins = {}
        inner.own_dicts = set()
        inner.self_ctor = None
        inner.self_name = "self_"
        for a, p in zip(call.args, fn.args.args):
            t, ty = self.guarded(a, sc)
            if p.annotation is not None:
                want = self.U.coq_type(p.annotation)
                if want != ty:
                    raise Unsupported(call, f"argument of type {ty} for a {want}")
            lets.append(f"let {safe(p.arg)} := {t} in")
            inner.types[p.arg] = ty
        return "\n    ".join(lets + [self.body(list(fn.body), inner)])

    def returns(self, stmts) -> bool:
        if not stmts:
            return False
        last = stmts[-1]
        if isinstance(last, (ast.Return, ast.Raise)):
            return True
        if isinstance(last, ast.If):
            return self.returns(last.body) and bool(last.orelse) and self.returns(last.orelse)
        if isinstance(last, ast.Match):
            return all(self.returns(c.body) for c in last.cases) and any(
                isinstance(c.pattern, ast.MatchAs) and c.pattern.pattern is None and c.guard is None for c in last.cases)
        return False

    # ---------------------------------------------------------------- match
    def case_accepts(self, pat, cls: str, node) -> bool:
        """Does the class pattern accept instances of the (concrete) class `cls`?"""
        if isinstance(pat, ast.MatchAs) and pat.pattern is None and pat.name is None:
            return True
        if isinstance(pat, ast.MatchOr):
            return any(self.case_accepts(p, cls, node) for p in pat.patterns)
        if isinstance(pat, ast.MatchClass) and not pat.patterns and not pat.kwd_patterns:
            cn = self.class_of_name(pat.cls)
            if cn is None:
                raise Unsupported(node, "class pattern of an unknown class")
            return self.U.is_sub(cls, cn)
        raise Unsupported(node, "pattern other than `Class()`, `A() | B()`, `_`")

    def match_stmt(self, s: ast.Match, rest, sc: XScope) -> str:
        if not isinstance(s.subject, ast.Name) or s.subject.id not in sc.types:
            raise Unsupported(s, "match on something other than a variable")
        subj = s.subject.id
        ind = sc.types[subj]
        if ind not in self.U.inds or ind in self.U.enums or any(sup == ind for (_, sup) in self.U.embed):
            raise Unsupported(s, "match on a value that is not of a translated class hierarchy")
        if sc.pending:
            raise AssertionError("pending effects before a match")
        out = [f"match {safe(subj)} with"]
        for ct in self.U.inds[ind]:
            chosen = None
            for c in s.cases:
                if c.guard is not None:
                    raise Unsupported(s, "case guard")
                if self.case_accepts(c.pattern, ct.pyclass, s):
                    chosen = c
                    break
            pat = " ".join(f"{subj}_{fn}" for fn, _ in ct.fields)
            arm = sc.clone(self_ctor=ct, self_name=subj, self_type=ind)
            arm.types[subj] = ind
            if chosen is None:
                body = self.body(list(rest), arm)  # no case matches: the statement does nothing
            else:
                body = self.body(list(chosen.body) + ([] if self.returns(chosen.body) else list(rest)), arm)
            out.append(f"    | {ct.coq} {pat} =>".replace("  =>", " =>") + f"\n      {body}")
        out.append("    end")
        return "\n".join(out)

    # ---------------------------------------------------------------- for
    def for_loop(self, s: ast.For, rest, sc: XScope) -> str:
        if s.orelse:
            raise Unsupported(s, "for ... else")
        src, et, is_set = self.iterable(s.iter, sc)
        binds = sc.take()
        if is_set:
            src = self.ordered(src, sc, s)
        assigned = self.all_assigned(s.body)
        targets = [x.id for x in ast.walk(s.target) if isinstance(x, ast.Name)]
        carried = [n for n in assigned if n in sc.types and n not in targets]
        for n in carried:
            if sc.types[n].startswith("(iterator "):
                raise Unsupported(s, "assignment to the iterator")
        if not carried:
            raise Unsupported(s, "loop that assigns no variable of the enclosing block")
        acc_pat = safe(carried[0]) if len(carried) == 1 else "'(" + ", ".join(safe(n) for n in carried) + ")"
        acc_val = safe(carried[0]) if len(carried) == 1 else "(" + ", ".join(safe(n) for n in carried) + ")"
        if not self.has_effects(s.body, sc):
            inner = sc.sub(None)
            pat = self.pattern(s.target, et, inner, s)
            tup = ast.Tuple(elts=[ast.Name(id=n, ctx=ast.Load()) for n in carried], ctx=ast.Load()) \
                if len(carried) > 1 else ast.Name(id=carried[0], ctx=ast.Load())
            b = self.body(list(s.body) + [ast.Return(value=tup)], inner)
            for n in carried:
                if inner.types[n] != sc.types[n]:
                    if not unknown(sc.types[n]):
                        raise Unsupported(s, f"variable {n} changes type in the loop")
                    sc.types[n] = inner.types[n]  # `{}` / `None` so far: the loop tells the type
                sc.origins.pop(n, None)
            for n in targets:  # Python keeps the loop variable after the loop; we do not
                sc.types.pop(n, None)
            k = self.body(rest, sc)
            return wrap(binds, f"let {acc_pat} := fold_left (fun {acc_pat} {pat} => {b}) {src} {acc_val} in\n    {k}")
        # loop with effects: a local fix that threads the assigned variables (and the counter)
        if sc.mode != "option":
            raise Unsupported(s, "loop with effects in a function translated as total")
        st = safe(sc.state) if sc.state else None
        names = [safe(n) for n in carried] + ([st] if st else [])
        tup = names[0] if len(names) == 1 else "(" + ", ".join(names) + ")"
        inner = sc.clone(in_loop=True)
        inner.pending = []
        pat = self.pattern(s.target, et, inner, s)
        if st:
            inner.entry_key = f"{st}_entry_"
            inner.entry_used = [False]
        inner.fallthrough = lambda scope: f"Some {tup}"
        b = self.body(list(s.body), inner)
        if st and inner.entry_used[0]:
            b = f"let {inner.entry_key} := {st} in\n    {b}"
        for n in carried:
            t0, t1 = sc.types[n], inner.types[n]
            if t0 != t1 and not (t0 == "(option _)" and t1.startswith("(option ")):
                raise Unsupported(s, f"variable {n} changes type in the loop")
            sc.types[n] = t1
            sc.origins.pop(n, None)
        for n in targets:  # Python keeps the loop variable after the loop; we do not
            sc.types.pop(n, None)
        k = self.body(rest, sc)
        accpat = tup if len(names) == 1 else "'" + tup
        fx = f"ofold (fun {accpat} (x_ : {et}) => let {pat} := x_ in\n    {b}) {src} {tup}"
        return wrap(binds, f"match {fx} with None => None | Some {tup} =>\n    {k} end")

    def try_index(self, s: ast.Try, rest, sc: XScope) -> str:
        """try: v = xs.index(x)
           except ValueError: <handler that returns>"""
        ok = (
            len(s.body) == 1 and not s.orelse and not s.finalbody and len(s.handlers) == 1
            and isinstance(s.body[0], ast.Assign) and len(s.body[0].targets) == 1
            and isinstance(s.body[0].targets[0], ast.Name)
            and isinstance(s.body[0].value, ast.Call)
            and isinstance(s.body[0].value.func, ast.Attribute)
            and s.body[0].value.func.attr == "index"
            and len(s.body[0].value.args) == 1 and not s.body[0].value.keywords
            and isinstance(s.handlers[0].type, ast.Name) and s.handlers[0].type.id == "ValueError"
            and s.handlers[0].name is None
        )
        if not ok:
            raise Unsupported(s, "try statement other than `try: v = xs.index(x) / except ValueError:`")
        call = s.body[0].value
        xs, xt = self.guarded(call.func.value, sc)
        x, xty = self.guarded(call.args[0], sc)
        if not xt.startswith("(list ") or elt_of(xt) != xty:
            raise Unsupported(s, ".index on a non-list")
        if not self.returns(s.handlers[0].body):
            raise Unsupported(s, "except handler must return")
        saved, saved_o = dict(sc.types), dict(sc.origins)
        h = self.body(list(s.handlers[0].body), sc)
        sc.types, sc.origins = saved, saved_o
        name = s.body[0].targets[0].id
        sc.types[name] = "Z"
        sc.origins.pop(name, None)
        k = self.body(rest, sc)
        return (f"match py_index {self.U.eqb_name(xty)} {xs} {x} with\n    | None => {h}\n"
                f"    | Some {safe(name)} =>\n    {k}\n    end")


def split_product(ty: str) -> list[str] | None:
    ty = ty.strip()
    if not (ty.startswith("(") and ty.endswith(")")):
        return None
    inner, depth, parts, cur = ty[1:-1], 0, [], ""
    i = 0
    while i < len(inner):
        ch = inner[i]
        if ch == "(":
            depth += 1
        elif ch == ")":
            depth -= 1
        if depth == 0 and inner[i:i + 3] == " * ":
            parts.append(cur)
            cur = ""
            i += 3
            continue
        cur += ch
        i += 1
    parts.append(cur)
    return parts if len(parts) > 1 else None


# --------------------------------------------------------------------------------------------
# emitters
# --------------------------------------------------------------------------------------------


def ptype(ty: str) -> str:
    """Gallina type of an argument: the iterator is its counter."""
    return "Z" if ty.startswith("(iterator ") else ty


class XEmitter(FamilyEmitter):
    """singledispatch families in the option / state monad, with identity tracking or fuel; record
    methods; methods of a class hierarchy; plain functions; functions whose body is one `match`."""

    def __init__(self, tr: XTranslator, fams: dict[str, Family]):
        super().__init__(tr, fams)

    def state_param(self, params) -> str | None:
        st = [pn for pn, pt in params if pt.startswith("(iterator ")]
        if len(st) > 1:
            raise Unsupported(ast.Constant(st), "several iterators")
        return st[0] if st else None

    def declare(self, fam: Family, domain: str, partial=False, ident=False, fuel=False):
        super().declare(fam, domain)
        sig = self.tr.sigs[fam.name]
        self.tr.fx[fam.name] = Fx(opt=partial or fuel, state=self.state_param(sig.params), fuel=fuel)
        if ident:
            self.tr.ident.add(fam.name)

    def full_ret(self, name: str) -> str:
        ret = self.tr.sigs[name].ret
        fx = self.tr.fx.get(name, NOFX)
        if name in self.tr.ident:
            ret = f"({ret} * bool)"
        if fx.state:
            ret = f"({ret} * Z)"
        if fx.opt:
            ret = f"(option {ret})"
        return ret

    def scope_for(self, name: str, ct: Ctor | None, self_type, self_name, params) -> XScope:
        sig = self.tr.sigs[name]
        fx = self.tr.fx.get(name, NOFX)
        sc = XScope(self.tr, ct, self_type, sig.ret, self_name=self_name, mode="option" if fx.opt else "pure",
                    ident=name if name in self.tr.ident else None)
        for pn, pt in params:
            sc.types[pn] = pt
        if fx.state:
            st = [pn for pn, pt in params if pt.startswith("(iterator ")][0]
            sc.state, sc.ret_state = st, True
            sc.entry_key = f"{safe(st)}_entry_"
        sc.fuel = fx.fuel
        return sc

    def finish_body(self, body: str, sc: XScope) -> str:
        if sc.state and sc.ret_state and sc.entry_used[0]:
            body = f"let {sc.entry_key} := {safe(sc.state)} in\n    {body}"
        return body

    def xarm(self, fam: Family, ct: Ctor) -> str:
        sig = self.tr.sigs[fam.name]
        fx = self.tr.fx.get(fam.name, NOFX)
        fn = self.registration_for(fam, ct.pyclass)
        if fn is None:
            if not is_raise_only(fam.base):
                raise Unsupported(fam.base, "default body is not a bare raise")
            if fx.opt:
                return "None"
            raise Unsupported(fam.base, f"no registration for {ct.pyclass} and the default raises")
        sname = fn.args.args[0].arg
        if len(fn.args.args) != len(sig.params) or fn.args.kwonlyargs or fn.args.vararg or fn.args.kwarg or fn.args.defaults:
            raise Unsupported(fn, "registration has a different signature")
        params = [(a.arg, pt) for a, (pn, pt) in zip(fn.args.args[1:], sig.params[1:])]
        sc = self.scope_for(fam.name, ct, ct.ind, sname, params)
        body = self.finish_body(self.tr.body(fn.body, sc), sc)
        # the registration may name its arguments differently from the dispatcher
        lets = []
        if sname != "self":
            lets.append(f"let {safe(sname)} := self in")
        for a, (pn, pt) in zip(fn.args.args[1:], sig.params[1:]):
            if a.arg != pn:
                lets.append(f"let {safe(a.arg)} := {safe(pn)} in")
        return " ".join(lets + [body])

    def family_text(self, n: str, kw: str, struct: str) -> list[str]:
        fam = self.fams[n]
        sig = self.tr.sigs[n]
        fx = self.tr.fx.get(n, NOFX)
        dom = sig.params[0][1]
        ps = " ".join(f"({safe(pn)} : {ptype(pt)})" for pn, pt in sig.params)
        st = f" {{struct {struct}}}" if struct else ""
        out = [f"{kw} {n} {ps}{st} : {self.full_ret(n)} :="]
        out.append("  match self with")
        for ct in self.U.inds[dom]:
            sname = "self"
            fn = self.registration_for(fam, ct.pyclass)
            if fn is not None:
                sname = fn.args.args[0].arg
            pat = " ".join(f"{sname}_{fn_}" for fn_, _ in ct.fields)
            out.append(f"  | {ct.coq} {pat} =>".replace("  =>", " =>"))
            out.append("    " + self.xarm(fam, ct))
        out.append("  end")
        return out

    def emit_xgroup(self, names: list[str]) -> str:
        out = []
        for i, n in enumerate(names):
            out += self.family_text(n, "Fixpoint" if i == 0 else "with", "self")
        out[-1] += "."
        return "\n".join(out) + "\n"

    # -------------------------------------------------------------- record methods
    def emit_record_method(self, cls: str, meth: str, partial=False) -> str:
        U = self.U
        k = U.classes[cls]
        fn = k.methods[meth]
        ct = U.ctors[cls]
        if not U.is_record(ct.ind):
            raise Unsupported(fn, "record method on a class with several constructors")
        if fn.decorator_list or fn.args.kwonlyargs or fn.args.vararg or fn.args.kwarg or fn.args.defaults:
            raise Unsupported(fn, "method signature")
        sname = fn.args.args[0].arg
        params = [(sname, ct.ind)] + [(a.arg, U.coq_type(a.annotation)) for a in fn.args.args[1:]]
        if fn.returns is None:
            raise Unsupported(fn, "method without return annotation")
        ret = U.coq_type(fn.returns)
        name = f"{ct.ind}_{meth}"
        self.tr.sigs[name] = FuncSig(name, params, ret)
        self.tr.rmethods[(ct.ind, meth)] = name
        self.tr.fx[name] = Fx(opt=partial)
        sc = self.scope_for(name, ct, ct.ind, sname, params[1:])
        body = self.tr.body(fn.body, sc)
        ps = " ".join(f"({safe(pn)} : {pt})" for pn, pt in params)
        pat = " ".join(f"{sname}_{f}" for f, _ in ct.fields)
        return (f"Definition {name} {ps} : {self.full_ret(name)} :=\n  match {safe(sname)} with\n"
                f"  | {ct.coq} {pat} =>\n    {body}\n  end.\n")

    # -------------------------------------------------------------- methods of a hierarchy
    def resolve_method(self, cls: str, meth: str) -> ast.FunctionDef | None:
        for c in self.mro(cls):
            k = self.U.classes.get(c)
            if k and meth in k.methods:
                return k.methods[meth]
        return None

    def emit_hierarchy_method(self, ind: str, meth: str, ret: str, name: str, partial=False) -> str:
        """`def meth(self)` defined in the classes of the hierarchy behind inductive `ind`."""
        U = self.U
        self.tr.sigs[name] = FuncSig(name, [("self", ind)], ret)
        self.tr.rmethods[(ind, meth)] = name
        self.tr.fx[name] = Fx(opt=partial)
        out = [f"Fixpoint {name} (self : {ind}) {{struct self}} : {self.full_ret(name)} :=", "  match self with"]
        for ct in U.inds[ind]:
            fn = self.resolve_method(ct.pyclass, meth)
            if fn is None:
                raise Unsupported(ast.Constant(ct.pyclass), f"class has no method {meth}")
            if [d for d in fn.decorator_list if ast.unparse(d) != "abstractmethod"] or len(fn.args.args) != 1:
                raise Unsupported(fn, "method signature")
            sname = fn.args.args[0].arg
            pat = " ".join(f"{sname}_{f}" for f, _ in ct.fields)
            out.append(f"  | {ct.coq} {pat} =>".replace("  =>", " =>"))
            if is_raise_only(fn):
                if not partial:
                    raise Unsupported(fn, f"{ct.pyclass}.{meth} only raises")
                out.append("    None")
                continue
            sc = self.scope_for(name, ct, ind, sname, [])
            body = self.tr.body(fn.body, sc)
            if sname != "self":
                body = f"let {safe(sname)} := self in {body}"
            out.append("    " + body)
        out.append("  end.")
        return "\n".join(out) + "\n"

    # -------------------------------------------------------------- plain functions
    def declare_function(self, fn: ast.FunctionDef, partial=False, fuel=False):
        if fn.decorator_list or fn.args.kwonlyargs or fn.args.vararg or fn.args.kwarg or fn.args.defaults:
            raise Unsupported(fn, "function signature")
        params = []
        for a in fn.args.args:
            if a.annotation is None:
                raise Unsupported(fn, "argument without annotation")
            params.append((a.arg, self.U.coq_type(a.annotation)))
        if fn.returns is None:
            raise Unsupported(fn, "function without return annotation")
        self.tr.sigs[fn.name] = FuncSig(fn.name, params, self.U.coq_type(fn.returns))
        self.tr.fx[fn.name] = Fx(opt=partial or fuel, state=self.state_param(params), fuel=fuel)

    def function_text(self, fn: ast.FunctionDef, kw: str, struct: str | None) -> str:
        sig = self.tr.sigs[fn.name]
        fx = self.tr.fx.get(fn.name, NOFX)
        first = fn.args.args[0].arg if fn.args.args else None
        sc = self.scope_for(fn.name, None, None, first or "self", sig.params)
        body = self.finish_body(self.tr.body(fn.body, sc), sc)
        ps = " ".join(f"({safe(pn)} : {ptype(pt)})" for pn, pt in sig.params)
        if fx.fuel and fn.name not in self.tr.open_group:
            ps = "(fuel : nat) " + ps
        st = f" {{struct {struct}}}" if struct else ""
        return f"{kw} {fn.name} {ps}{st} : {self.full_ret(fn.name)} :=\n    {body}"

    def emit_function(self, fn: ast.FunctionDef) -> str:
        return self.function_text(fn, "Definition", None) + ".\n"

    def emit_match_function(self, fn: ast.FunctionDef) -> str:
        """A function recursive on its first argument whose body is one `match` on it."""
        body = [s for s in fn.body if not (isinstance(s, ast.Expr) and isinstance(s.value, ast.Constant))]
        if len(body) != 1 or not isinstance(body[0], ast.Match) or not isinstance(body[0].subject, ast.Name) \
                or body[0].subject.id != fn.args.args[0].arg:
            raise Unsupported(fn, "body is not a single match on the first argument")
        return self.function_text(fn, "Fixpoint", safe(fn.args.args[0].arg)) + ".\n"

    def emit_fuel_group(self, fams: list[str], fns: list[ast.FunctionDef]) -> str:
        """Mutually recursive functions that are not structurally recursive.  Each function f becomes
        a non-recursive [f_body] that takes the functions of the group as arguments (open recursion);
        one Fixpoint on fuel ties the knot: with fuel S n every call inside the group runs with fuel n,
        with fuel 0 the result is None."""
        names = list(fams) + [fn.name for fn in fns]

        def ftype(n):
            sig = self.tr.sigs[n]
            return " -> ".join([ptype(pt) for _, pt in sig.params] + [self.full_ret(n)])

        rec = " ".join(f"({n} : {ftype(n)})" for n in names)
        out = []
        self.tr.open_group = set(names)
        try:
            for n in fams:
                lines = self.family_text(n, "Definition", None)
                lines[0] = lines[0].replace(f"Definition {n} ", f"Definition {n}_body {rec} ", 1)
                out.append("\n".join(lines) + ".\n")
            for fn in fns:
                t = self.function_text(fn, "Definition", None)
                out.append(t.replace(f"Definition {fn.name} ", f"Definition {fn.name}_body {rec} ", 1) + ".\n")
        finally:
            self.tr.open_group = set()
        fix = []
        def eta(m):
            # a lambda, so that call-by-value evaluation (vm_compute) does not unfold all fuel at once
            xs = " ".join(f"a{j}_" for j in range(len(self.tr.sigs[m].params)))
            return f"(fun {xs} => {m} fuel {xs})"

        for i, n in enumerate(names):
            sig = self.tr.sigs[n]
            wild = " ".join("_" for _ in sig.params)
            recs = " ".join(eta(m) for m in names)
            fix.append(f"{'Fixpoint' if i == 0 else 'with'} {n} (fuel : nat) {{struct fuel}} : {ftype(n)} :=\n"
                       f"  match fuel with\n  | O => fun {wild} => None\n  | S fuel => {n}_body {recs}\n  end")
        out.append("\n".join(fix) + ".\n")
        return "\n".join(out)


# --------------------------------------------------------------------------------------------
# target 1: identifiable expressions, exhaust_tensor, extract_context
# --------------------------------------------------------------------------------------------

IDDIR = "tensora/iteration_graph/identifiable_expression"


def build_id_universe(src: Path) -> XUniverse:
    U = XUniverse()
    U.add_enum("Mode", parse_enum(ast.parse((src / "tensora/format/_format.py").read_text()), "Mode"))
    aclasses = parse_classes(ast.parse((src / IDDIR / "ast.py").read_text()))
    lclasses = parse_classes_lenient(ast.parse((src / IDDIR / "_tensor_layer.py").read_text()), ["TensorLayer"])
    cclasses = parse_classes_lenient(ast.parse((src / IDDIR / "_extract_context.py").read_text()), ["Context"])
    for need, table in (("Expression", aclasses), ("TensorLayer", lclasses), ("Context", cclasses)):
        if need not in table:
            raise Unsupported(ast.Constant(need), "missing class")
    for t in (aclasses, lclasses, cclasses):
        clash = set(U.classes) & set(t)
        if clash:
            raise Unsupported(ast.Constant(sorted(clash)), "class defined twice")
        U.classes.update(t)
    members = [c for c in aclasses if aclasses[c].is_dataclass and U.is_sub(c, "Expression")]
    other = [c for c in aclasses if aclasses[c].is_dataclass and c not in members]
    if other:
        raise Unsupported(ast.Constant(other), "dataclass outside the Expression hierarchy")
    U.add_inductive("id_expr", "Expression", members, prefix="Id")
    U.add_inductive("TensorLayer", "TensorLayer", ["TensorLayer"], prefix="Mk")
    U.add_inductive("Context", "Context", ["Context"], prefix="Mk")
    U.resolve_fields()
    return U


def gen_exhaust_ast(src: Path) -> str:
    U = build_id_universe(src)
    out = [XPRELUDE.format(src=f"src/tensora/format/_format.py (Mode), src/{IDDIR}/ast.py, _tensor_layer.py (fields), "
                               "_extract_context.py (class Context)")]
    out.append(U.emit_inductives([["Mode"], ["id_expr"], ["TensorLayer"], ["Context"]]))
    out.append(U.emit_eqb("Mode"))
    out.append(U.emit_eqb("id_expr"))
    out.append(U.emit_recognizers("id_expr"))
    out.append(U.emit_projections("TensorLayer"))
    out.append(U.emit_projections("Context"))
    return "\n".join(out)


def gen_exhaust(src: Path) -> str:
    U = build_id_universe(src)
    tr = XTranslator(U)
    out = [XPRELUDE.format(src=f"src/{IDDIR}/_exhaust_tensor.py, src/{IDDIR}/_extract_context.py"),
           "From TV Require Import gen.ExhaustAst.\n"]
    # ---- exhaust_tensor
    fams, plain = parse_functions(ast.parse((src / IDDIR / "_exhaust_tensor.py").read_text()))
    if set(fams) != {"exhaust_tensor"} or plain:
        raise Unsupported(ast.Constant(sorted(fams) + sorted(plain)), "unexpected functions in _exhaust_tensor.py")
    fe = XEmitter(tr, fams)
    fe.declare(fams["exhaust_tensor"], "id_expr", ident=True)
    out.append("(* exhaust_tensor returns (result, result IS the argument object): Python's `is` tests *)")
    out.append(fe.emit_xgroup(["exhaust_tensor"]))
    # ---- Context methods, extract_context
    ctree = ast.parse((src / IDDIR / "_extract_context.py").read_text())
    cfams, cplain = parse_functions(ctree)
    if set(cfams) != {"extract_context"} or cplain:
        raise Unsupported(ast.Constant(sorted(cfams) + sorted(cplain)), "unexpected functions in _extract_context.py")
    ce = XEmitter(tr, cfams)
    for m in U.classes["Context"].methods:
        out.append(ce.emit_record_method("Context", m))
    ce.declare(cfams["extract_context"], "id_expr", partial=True)
    out.append("(* None = a Python exception (IndexError of self.modes[layer], NotImplementedError) *)")
    out.append(ce.emit_xgroup(["extract_context"]))
    return "\n".join(out)


# --------------------------------------------------------------------------------------------
# target 2: iteration_graph/_names.py
# --------------------------------------------------------------------------------------------


def gen_names(src: Path) -> str:
    from . import ir

    U = ir.build_universe(src, XUniverse)
    tree = ast.parse((src / "tensora/iteration_graph/_names.py").read_text())
    fams, plain = parse_functions(tree)
    if fams:
        raise Unsupported(ast.Constant(sorted(fams)), "unexpected singledispatch family in _names.py")
    for node in tree.body:
        ok = isinstance(node, (ast.FunctionDef, ast.ImportFrom, ast.Import)) or (
            isinstance(node, ast.Assign) and all(isinstance(t, ast.Name) and t.id == "__all__" for t in node.targets)) or (
            isinstance(node, ast.Expr) and isinstance(node.value, ast.Constant))
        if not ok:
            raise Unsupported(node, "top-level statement of _names.py")
    tr = XTranslator(U)
    fe = XEmitter(tr, {})
    out = [XPRELUDE.format(src="src/tensora/iteration_graph/_names.py"), "From TV Require Import gen.IRAst.\n"]
    for name, fn in plain.items():  # source order: a function may only call earlier ones
        fe.declare_function(fn)
        out.append(fe.emit_function(fn))
    return "\n".join(out)


# --------------------------------------------------------------------------------------------
# target 3: expression/ast.py, the deparse methods
# --------------------------------------------------------------------------------------------


def build_expression_universe(src: Path) -> XUniverse:
    U = XUniverse()
    classes = parse_classes(ast.parse((src / "tensora/expression/ast.py").read_text()))
    for need in ("Expression", "Assignment"):
        if need not in classes:
            raise Unsupported(ast.Constant(need), "missing class")
    U.classes.update(classes)
    members = [c for c in classes if classes[c].is_dataclass and U.is_sub(c, "Expression")]
    other = [c for c in classes if classes[c].is_dataclass and c not in members and c != "Assignment"]
    if other:
        raise Unsupported(ast.Constant(other), "dataclass outside the Expression hierarchy")
    U.add_inductive("ex_expr", "Expression", members, prefix="Ex")
    U.add_inductive("ex_assignment", "Assignment", ["Assignment"], prefix="Ex")
    U.resolve_fields()
    return U


def gen_deparse(src: Path) -> str:
    U = build_expression_universe(src)
    tr = XTranslator(U)
    tr.float_str = "str_float"
    fe = XEmitter(tr, {})
    out = [XPRELUDE.format(src="src/tensora/expression/ast.py (classes, deparse methods)")]
    out.append(U.emit_inductives([["ex_expr"], ["ex_assignment"]]))
    out.append(U.emit_eqb("ex_expr"))
    out.append(U.emit_recognizers("ex_expr"))
    out.append(U.emit_projections("ex_assignment"))
    out.append("(* Expression.variables(): dict[str, list[Tensor]] in insertion order; None = KeyError *)")
    out.append(fe.emit_hierarchy_method("ex_expr", "variables", "(pydict string (list ex_expr))", "Expression_variables", partial=True))
    tree = ast.parse((src / "tensora/expression/ast.py").read_text())
    helpers = {n.name: n for n in tree.body if isinstance(n, ast.FunctionDef)}
    if set(helpers) != {"merge_index_participants"}:
        raise Unsupported(ast.Constant(sorted(helpers)), "unexpected module-level functions in expression/ast.py")
    tr.inline = helpers
    tr.oracle_nokey = "ord_set"
    out.append("Section IndexParticipants.\n(* iteration order of the set {*left.keys(), *right.keys()}: unknown *)\n"
               "Variable ord_set : list string -> list string.\n")
    out.append(fe.emit_hierarchy_method("ex_expr", "index_participants", "(pydict string (pyset (string * Z)))",
                                        "Expression_index_participants"))
    out.append(fe.emit_record_method("Assignment", "index_participants"))
    out.append("End IndexParticipants.\n")
    tr.inline, tr.oracle_nokey = {}, None
    out.append("Section Deparse.\n(* Python's str(float) (repr of a binary64) is not modelled: an abstract rendering *)\n"
               "Variable str_float : F -> string.\n")
    out.append(fe.emit_hierarchy_method("ex_expr", "deparse", "string", "Expression_deparse"))
    out.append(fe.emit_record_method("Assignment", "deparse"))
    out.append("End Deparse.\n")
    return "\n".join(out)


# --------------------------------------------------------------------------------------------
# target 4: desugar/ast.py, desugar/_desugar_expression.py
# --------------------------------------------------------------------------------------------

# Summary of `e.index_participants().keys()`: the index names occurring in e.  The source only uses it
# under set(...), i.e. as a set; that it is right as a set is PROVED from the regenerated
# index_participants (gen/Deparse.v) in proofs/GenIndexParticipants_equiv.v (gen_index_names_summary).
# What remains assumed: which duplicate-free list represents that set does not matter (the iteration
# order of a set goes through the oracle anyway).
SUMMARY_INDEX_NAMES = """(* summary of [e.index_participants().keys()] -- the index names occurring in e; the source only
   uses it as [set(...)].  Right as a set: proofs/GenIndexParticipants_equiv.v, gen_index_names_summary. *)
Fixpoint index_names (e : ex_expr) : list string :=
  match e with
  | ExInteger _ | ExFloat _ => nil
  | ExTensor _ indexes => indexes
  | ExAdd a b | ExSubtract a b | ExMultiply a b => (index_names a ++ index_names b)%list
  end.
Definition assignment_index_names (a : ex_assignment) : list string :=
  (index_names (ex_assignment_target a) ++ index_names (ex_assignment_expression a))%list.
"""


def build_desugar_universe(src: Path) -> XUniverse:
    U = build_expression_universe(src)
    U.modules = {"sugar": "", "desugar": "desugar"}
    dclasses = parse_classes(ast.parse((src / "tensora/desugar/ast.py").read_text()))
    for need in ("Expression", "Assignment"):
        if need not in dclasses:
            raise Unsupported(ast.Constant(need), "missing class in desugar/ast.py")
    U.add_namespaced("desugar", dclasses)
    members = [f"desugar.{c}" for c in dclasses if dclasses[c].is_dataclass and U.is_sub(f"desugar.{c}", "desugar.Expression")]
    other = [c for c in dclasses if dclasses[c].is_dataclass and f"desugar.{c}" not in members and c != "Assignment"]
    if other:
        raise Unsupported(ast.Constant(other), "dataclass outside the Expression hierarchy")
    U.add_inductive("de_expr", "desugar.Expression", members, prefix="De")
    U.add_inductive("de_assignment", "desugar.Assignment", ["desugar.Assignment"], prefix="De")
    U.resolve_fields()
    return U


def gen_desugar(src: Path) -> str:
    U = build_desugar_universe(src)
    tree = ast.parse((src / "tensora/desugar/_desugar_expression.py").read_text())
    for node in tree.body:
        ok = isinstance(node, (ast.FunctionDef, ast.ImportFrom, ast.Import)) or (
            isinstance(node, ast.Assign) and all(isinstance(t, ast.Name) and t.id == "__all__" for t in node.targets)) or (
            isinstance(node, ast.Expr) and isinstance(node.value, ast.Constant))
        if not ok:
            raise Unsupported(node, "top-level statement of _desugar_expression.py")
    fams, plain = parse_functions(tree)
    if set(fams) != {"desugar_expression"}:
        raise Unsupported(ast.Constant(sorted(fams)), "unexpected singledispatch families")
    want = ["carried_by_every_term", "additive_terms", "desugar_distributed", "desugar_assignment"]
    if sorted(plain) != sorted(want):
        raise Unsupported(ast.Constant(sorted(plain)), "unexpected plain functions in _desugar_expression.py")
    tr = XTranslator(U)
    tr.oracle = "ord"
    tr.summaries[("ex_expr", "index_participants().keys()")] = ("index_names", "(list string)")
    tr.summaries[("ex_assignment", "index_participants().keys()")] = ("assignment_index_names", "(list string)")
    fe = XEmitter(tr, fams)
    out = [XPRELUDE.format(src="src/tensora/desugar/ast.py, src/tensora/desugar/_desugar_expression.py"),
           "From TV Require Import gen.Deparse.\n"]
    out.append(U.emit_inductives([["de_expr"], ["de_assignment"]]))
    out.append(U.emit_eqb("de_expr"))
    out.append(U.emit_projections("de_assignment"))
    out.append(SUMMARY_INDEX_NAMES)
    for n in ("carried_by_every_term", "additive_terms"):
        fe.declare_function(plain[n])
        out.append(fe.emit_match_function(plain[n]))
    out.append("Section Desugar.\n(* iteration order of a set: unknown; keyed by the value of the id counter on entry to the\n"
               "   enclosing function / loop body.  Nothing may be assumed but that it permutes its argument. *)\n"
               "Variable ord : Z -> list string -> list string.\n")
    fe.declare(fams["desugar_expression"], "ex_expr", fuel=True)
    fe.declare_function(plain["desugar_distributed"], fuel=True)
    out.append("(* desugar_multiply -> desugar_distributed -> desugar_expression on the factors is not structural\n"
               "   recursion: explicit fuel; None = out of fuel or a Python exception *)")
    out.append(fe.emit_fuel_group(["desugar_expression"], [plain["desugar_distributed"]]))
    fe.declare_function(plain["desugar_assignment"], fuel=True)
    out.append(fe.emit_function(plain["desugar_assignment"]))
    out.append("End Desugar.\n")
    return "\n".join(out)


# --------------------------------------------------------------------------------------------


def targets(src: Path) -> dict:
    return {
        "ExhaustAst.v": lambda: gen_exhaust_ast(src),
        "Exhaust.v": lambda: gen_exhaust(src),
        "Names.v": lambda: gen_names(src),
        "Deparse.v": lambda: gen_deparse(src),
        "Desugar.v": lambda: gen_desugar(src),
    }
