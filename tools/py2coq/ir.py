"""Translate ir/types.py, ir/ast.py -> gen/IRAst.v and ir/_peephole.py -> gen/Peephole.v."""
from __future__ import annotations

import ast
from pathlib import Path

from .core import (PRELUDE, FamilyEmitter, Translator, Universe, Unsupported, parse_classes,
                   parse_functions)


def build_universe(src: Path, universe_cls=Universe) -> Universe:
    U = universe_cls()
    ttree = ast.parse((src / "tensora/ir/types.py").read_text())
    atree = ast.parse((src / "tensora/ir/ast.py").read_text())
    tclasses = parse_classes(ttree)
    aclasses = parse_classes(atree)
    clash = set(tclasses) & set(aclasses)
    if clash:
        raise Unsupported(ast.Constant(sorted(clash)), "class defined in both ir/types.py and ir/ast.py")
    U.classes.update(tclasses)
    U.classes.update(aclasses)
    for need in ("Type",):
        if need not in tclasses:
            raise Unsupported(ast.Constant(need), "missing root class")
    for need in ("Statement", "Expression", "Assignable", "FunctionDefinition", "Module"):
        if need not in aclasses:
            raise Unsupported(ast.Constant(need), "missing root class")
    ty_members = [c for c in tclasses if tclasses[c].is_dataclass and U.is_sub(c, "Type")]
    ex_members = [c for c in aclasses if aclasses[c].is_dataclass and U.is_sub(c, "Expression")]
    st_members = [c for c in aclasses if aclasses[c].is_dataclass and U.is_sub(c, "Statement")
                  and not U.is_sub(c, "Expression")]
    U.add_inductive("ty", "Type", ty_members, prefix="T")
    U.add_inductive("expr", "Expression", ex_members)
    U.add_inductive("stmt", "Statement", st_members, exclude_root="Expression")
    # Expression is a Python subclass of Statement: an expression used as a statement
    U.embed[("expr", "stmt")] = "SExpr"
    U.add_inductive("function_definition", "FunctionDefinition", ["FunctionDefinition"])
    U.add_inductive("module", "Module", ["Module"])
    U.resolve_fields()
    return U


def gen_irast(src: Path) -> str:
    U = build_universe(src)
    out = [PRELUDE.format(src="src/tensora/ir/types.py, src/tensora/ir/ast.py")]
    out.append(U.emit_inductives([["ty"], ["expr"], ["stmt"], ["function_definition"], ["module"]]))
    out.append(U.emit_eqb("ty"))
    out.append(U.emit_eqb("expr"))
    out.append(U.emit_recognizers("expr"))
    out.append(U.emit_recognizers("stmt"))
    # Assignable is an abstract Python subclass of Expression: a predicate, not a type
    assignables = [U.ctors[c].coq for c in U.subclasses("Assignable")]
    tests = " || ".join(f"is_{c} x" for c in assignables)
    out.append(f"Definition is_Assignable (x : expr) : bool := {tests}.\n")
    # bool methods of statements used by the optimiser
    tr = Translator(U)
    fe = FamilyEmitter(tr, {})
    for cls, k in U.classes.items():
        if cls in U.ctors:
            for m, fn in k.methods.items():
                if m.startswith("is_") and len(fn.args.args) == 1:
                    out.append(fe.emit_bool_method(cls, m))
    return "\n".join(out)


def gen_peephole(src: Path) -> str:
    U = build_universe(src)
    tree = ast.parse((src / "tensora/ir/_peephole.py").read_text())
    fams, plain = parse_functions(tree)
    tr = Translator(U)
    fe = FamilyEmitter(tr, fams)
    # methods (already emitted in IRAst.v) must be known to the translator
    for cls, k in U.classes.items():
        if cls in U.ctors:
            for m, fn in k.methods.items():
                if m.startswith("is_") and len(fn.args.args) == 1:
                    fe.emit_bool_method(cls, m)
    expect = {"peephole_assignable": "expr", "peephole_expression": "expr", "peephole_statement": "stmt"}
    if set(fams) != set(expect):
        raise Unsupported(ast.Constant(sorted(fams)), "unexpected set of singledispatch families in _peephole.py")
    for n, dom in expect.items():
        fe.declare(fams[n], dom)
    out = [PRELUDE.format(src="src/tensora/ir/_peephole.py"), "From TV Require Import gen.IRAst.\n"]
    out.append(fe.emit_group(["peephole_assignable", "peephole_expression"]))
    out.append(fe.emit_group(["peephole_statement"]))
    want_plain = ["peephole_function_definition", "peephole"]
    if list(plain) != want_plain:
        raise Unsupported(ast.Constant(list(plain)), "unexpected plain functions in _peephole.py")
    for n in want_plain:
        out.append(fe.emit_plain(plain[n]))
    return "\n".join(out)
