"""py2coq.extra_validate: the argument validation of kernel calls regenerated into Gallina.

  compile/_tensor_method.py  TensorMethod.__init__ (the statements before code generation) and
                             TensorMethod.__call__ (the statements between the library call
                             `self.signature.bind(*args, **kwargs).arguments` and the allocation of
                             the output)                                   -> gen/TensorMethod.v
  format/_format.py          Mode (members), Format (fields, property `order`)
  problem.py                 Problem (fields)
  tensor.py                  Tensor: only the NAMES and annotations of the properties the slice reads

The hand model coq/model/Validate.v (C10) is PROVED equal to these definitions in
coq/proofs/GenValidate_equiv.v; statements coq/props/TIE_validate.v; notes design.d/TIE_validate.md.

Unlike extra.py (option monad: "some exception") the functions here return [pyres A]:
[Ret a] or [Raise (PyExc cls site vals)] -- the exception CLASS written in the source, the SITE (ordinal of
the `raise` statement inside its method, in source order; -1 for an exception raised by the interpreter:
KeyError of d[k], IndexError of xs[i], AttributeError, ValueError of zip(strict=True)), and the values of
the formatted pieces of the message that the translator can render (others are [VOpaque]).  The TEXT of a
message is not modelled.

Everything is fail-closed: a statement or expression outside the shapes below raises Unsupported, the
generated file then does not compile.
"""

from __future__ import annotations

import ast
import re
from pathlib import Path

from .core import PRELUDE, Unsupported
from .extra import RESERVED, build_expression_universe, parse_enum, split_product

FILE = "TensorMethod.v"

SUPPORT = r'''
(* ---------------------------------------------------------------------------------------------- *)
(* fixed support text of tools/py2coq/extra_validate.py: results with named exceptions *)
Inductive pyval : Type := VStr (s : string) | VInt (z : Z) | VOpaque.
Inductive pyexc : Type := PyExc (cls : string) (site : Z) (vals : list pyval).
Inductive pyres (A : Type) : Type := Ret (a : A) | Raise (e : pyexc).
Arguments Ret {A} a.
Arguments Raise {A} e.

Definition rbind {A B} (r : pyres A) (f : A -> pyres B) : pyres B :=
  match r with Ret a => f a | Raise e => Raise e end.

(* an exception raised by the interpreter / a builtin: d[k], xs[i], x.attr, zip(strict=True) *)
Definition builtin_exc (cls : string) : pyexc := PyExc cls (-1)%Z nil.
Definition of_opt {A} (cls : string) (o : option A) : pyres A :=
  match o with Some a => Ret a | None => Raise (builtin_exc cls) end.

(* [for x in xs: body]: the variables the body assigns are the accumulator; the first exception wins *)
Fixpoint rfold {A B} (f : B -> A -> pyres B) (xs : list A) (acc : B) : pyres B :=
  match xs with
  | nil => Ret acc
  | x :: r => match f acc x with Raise e => Raise e | Ret acc1 => rfold f r acc1 end
  end.

(* [[f(x) for x in xs]] when f may raise: left to right, the first exception wins *)
Fixpoint rmap {A B} (f : A -> pyres B) (xs : list A) : pyres (list B) :=
  match xs with
  | nil => Ret nil
  | x :: r => match f x with
              | Raise e => Raise e
              | Ret y => match rmap f r with Raise e => Raise e | Ret ys => Ret (y :: ys) end
              end
  end.

(* zip(a, b[, c]): the tuples of the common prefix; with strict=True a ValueError is raised AFTER the
   common prefix has been consumed when the lengths differ ([zip*_same] tells whether they agree) *)
Fixpoint zip2 {A B} (a : list A) (b : list B) : list (A * B) :=
  match a, b with x :: a', y :: b' => (x, y) :: zip2 a' b' | _, _ => nil end.
Definition zip2_same {A B} (a : list A) (b : list B) : bool := Nat.eqb (List.length a) (List.length b).
Fixpoint zip3 {A B C} (a : list A) (b : list B) (c : list C) : list (A * B * C) :=
  match a, b, c with x :: a', y :: b', z :: c' => (x, y, z) :: zip3 a' b' c' | _, _, _ => nil end.
Definition zip3_same {A B C} (a : list A) (b : list B) (c : list C) : bool :=
  Nat.eqb (List.length a) (List.length b) && Nat.eqb (List.length b) (List.length c).
'''

# the properties of tensora.tensor.Tensor that the translated code may read, with the annotation the
# source must give them.  An object that passed `isinstance(x, Tensor)` is the tuple of what these
# properties return (each read is an independent opaque value: they read a C structure).
TENSOR_ATTRS = [("order", "int", "Z"), ("modes", "tuple[Mode, ...]", "(list Mode)"),
                ("mode_ordering", "tuple[int, ...]", "(list Z)"), ("dimensions", "tuple[int, ...]", "(list Z)")]

ORACLES = {"string": "ord_set", "(string * Z)": "ord_part"}


def safe(name: str) -> str:
    if name == "_":
        return "_"
    return name + "_" if (name in RESERVED or name in ("Ret", "Raise", "rbind", "rfold", "rmap", "self_")) else name


def is_list(ty):
    return ty.startswith("(list ")


def is_set(ty):
    return ty.startswith("(pyset ")


def elt(ty):
    for p in ("(list ", "(pyset "):
        if ty.startswith(p):
            return ty[len(p):-1]
    return None


def dict_kv(ty):
    if not ty.startswith("(pydict "):
        return None
    inner, depth = ty[len("(pydict "):-1], 0
    for i, ch in enumerate(inner):
        if ch == "(":
            depth += 1
        elif ch == ")":
            depth -= 1
        elif ch == " " and depth == 0:
            return inner[:i], inner[i + 1:]
    return None


def unknown(ty):
    return "_" in re.findall(r"[^\s()*]+", ty)


class Env:
    def __init__(self, tr, method):
        self.tr = tr
        self.method = method  # "init" | "call" | "prop"
        self.types: dict[str, str] = {}
        self.refined: dict[str, dict[str, str]] = {}  # variable known to be a Tensor -> attribute -> coq variable
        self.self_attrs: dict[str, tuple[str, str]] = {}  # attribute of self -> (coq text, type)
        self.self_type: str | None = None  # record type of `self` in a property
        self.pending: list[tuple[str, str]] = []
        self.own_dicts: set[str] = set()
        self.counter = [0]
        self.sites: dict[int, int] = {}  # id(raise node) -> ordinal

    def fresh(self, base):
        self.counter[0] += 1
        return f"{base}_{self.counter[0]}_"

    def clone(self):
        e = Env(self.tr, self.method)
        e.types = dict(self.types)
        e.refined = {k: dict(v) for k, v in self.refined.items()}
        e.self_attrs = dict(self.self_attrs)
        e.self_type = self.self_type
        e.own_dicts = set(self.own_dicts)
        e.counter = self.counter
        e.sites = self.sites
        return e

    def take(self):
        p, self.pending = self.pending, []
        return p


def wrap(binds, inner: str) -> str:
    for var, text in reversed(binds):
        inner = f"rbind ({text}) (fun {var} =>\n    {inner})"
    return inner


class VT:
    """Typed translation of the statement / expression shapes listed in design.d/TIE_validate.md."""

    def __init__(self, U, records, tensor_attrs):
        self.U = U  # expression universe (ex_expr, ex_assignment) of extra.py
        self.records = records  # coq record type -> (constructor, [(field, type)], {property: coq function})
        self.tensor_attrs = tensor_attrs  # [(attr, coq type)]
        self.used_oracles: set[str] = set()

    # ------------------------------------------------------------------ types
    def eqb(self, ty: str, node) -> str:
        prim = {"Z": "Z.eqb", "string": "String.eqb", "bool": "Bool.eqb", "Mode": "Mode_eqb"}
        if ty in prim:
            return prim[ty]
        if is_list(ty):
            return f"(list_eqb {self.eqb(elt(ty), node)})"
        parts = split_product(ty)
        if parts:
            acc = self.eqb(parts[0], node)
            for p in parts[1:]:
                acc = f"(pair_eqb {acc} {self.eqb(p, node)})"
            return acc
        raise Unsupported(node, f"== on values of type {ty}")

    def ann_type(self, ann, node) -> str:
        s = ast.unparse(ann)
        table = {"int": "Z", "str": "string", "bool": "bool", "Mode": "Mode", "Format": "Format",
                 "Assignment": "ex_assignment", "Problem": "Problem",
                 "tuple[Mode, ...]": "(list Mode)", "tuple[int, ...]": "(list Z)", "tuple[str, ...]": "(list string)",
                 "dict[str, Format]": "(pydict string Format)"}
        if s not in table:
            raise Unsupported(node, f"annotation {s}")
        return table[s]

    def pattern(self, target, ty, env: Env, node) -> str:
        if isinstance(target, ast.Name):
            if target.id != "_":
                env.types[target.id] = ty
                env.refined.pop(target.id, None)
                env.own_dicts.discard(target.id)
            return safe(target.id)
        if isinstance(target, ast.Tuple) and all(isinstance(x, ast.Name) for x in target.elts):
            tys = split_product(ty)
            if tys is None or len(tys) != len(target.elts):
                raise Unsupported(node, f"tuple target over values of type {ty}")
            for x, xt in zip(target.elts, tys):
                if x.id != "_":
                    env.types[x.id] = xt
                    env.refined.pop(x.id, None)
                    env.own_dicts.discard(x.id)
            return "'(" + ", ".join(safe(x.id) for x in target.elts) + ")"
        raise Unsupported(node, "loop / comprehension target")

    # ------------------------------------------------------------------ expressions
    def pure(self, node, env: Env, want=None):
        """An expression Python evaluates only conditionally / repeatedly: no effect allowed."""
        n = len(env.pending)
        r = self.expr(node, env, want)
        if len(env.pending) != n:
            del env.pending[n:]
            raise Unsupported(node, "exception-raising operation under a short-circuit / condition / lambda")
        return r

    def effect(self, env: Env, base: str, text: str) -> str:
        v = env.fresh(base)
        env.pending.append((v, text))
        return v

    def iterable(self, node, env: Env):
        """(list text in iteration order, element type)."""
        if isinstance(node, ast.Call) and isinstance(node.func, ast.Name) and node.func.id == "zip" \
                and node.func.id not in env.types:
            raise Unsupported(node, "zip() outside the head of a for statement")
        t, ty = self.expr(node, env)
        if dict_kv(ty) and not unknown(ty):
            return f"(map fst {t})", dict_kv(ty)[0]  # iterating a dict iterates its keys
        if is_list(ty) and not unknown(ty):
            return t, elt(ty)
        if is_set(ty) and not unknown(ty):
            et = elt(ty)
            if et not in ORACLES:
                raise Unsupported(node, f"iteration over a set of {et} (no order oracle)")
            self.used_oracles.add(ORACLES[et])
            return f"({ORACLES[et]} {t})", et
        raise Unsupported(node, f"iteration over a value of type {ty}")

    def expr(self, e, env: Env, want=None):
        if isinstance(e, ast.Constant):
            if isinstance(e.value, bool):
                return ("true" if e.value else "false"), "bool"
            if isinstance(e.value, int):
                return f"({e.value})%Z", "Z"
            if isinstance(e.value, str):
                return '"' + e.value.replace('"', '""') + '"%string', "string"
            raise Unsupported(e, "constant")
        if isinstance(e, ast.Name):
            if e.id in env.types:
                if env.types[e.id] == "opaque":
                    raise Unsupported(e, "a value the translator could not render is used outside an exception message")
                return safe(e.id), env.types[e.id]
            raise Unsupported(e, "unbound name")
        if isinstance(e, ast.Attribute):
            return self.attribute(e, env)
        if isinstance(e, ast.UnaryOp) and isinstance(e.op, ast.USub) and isinstance(e.operand, ast.Constant) \
                and isinstance(e.operand.value, int) and not isinstance(e.operand.value, bool):
            return f"(-{e.operand.value})%Z", "Z"
        if isinstance(e, ast.UnaryOp) and isinstance(e.op, ast.Not):
            t, ty = self.expr(e.operand, env)
            self.need(ty, "bool", e)
            return f"(negb {t})", "bool"
        if isinstance(e, ast.BoolOp):
            parts = [self.expr(e.values[0], env)] + [self.pure(v, env) for v in e.values[1:]]
            for _, ty in parts:
                self.need(ty, "bool", e)
            op = " && " if isinstance(e.op, ast.And) else " || "
            return "(" + op.join(t for t, _ in parts) + ")", "bool"
        if isinstance(e, ast.Compare) and len(e.ops) == 1:
            op = e.ops[0]
            if isinstance(op, (ast.Eq, ast.NotEq)):
                l, lt = self.expr(e.left, env)
                r, rt = self.expr(e.comparators[0], env, want=lt)
                if lt != rt or unknown(lt):
                    raise Unsupported(e, f"comparison between {lt} and {rt}")
                t = f"({self.eqb(lt, e)} {l} {r})"
                return (t if isinstance(op, ast.Eq) else f"(negb {t})"), "bool"
            if isinstance(op, (ast.In, ast.NotIn)):
                x, xt = self.expr(e.left, env)
                s, st = self.expr(e.comparators[0], env)
                if dict_kv(st) and dict_kv(st)[0] == xt:
                    t = f"(dict_mem {self.eqb(xt, e)} {x} {s})"
                elif elt(st) == xt:
                    t = f"(py_in {self.eqb(xt, e)} {x} {s})"
                else:
                    raise Unsupported(e, f"membership of a {xt} in a {st}")
                return (t if isinstance(op, ast.In) else f"(negb {t})"), "bool"
            if isinstance(op, (ast.Lt, ast.LtE, ast.Gt, ast.GtE)):
                l, lt = self.expr(e.left, env)
                r, rt = self.expr(e.comparators[0], env)
                self.need(lt, "Z", e)
                self.need(rt, "Z", e)
                sym = {ast.Lt: "<?", ast.LtE: "<=?", ast.Gt: ">?", ast.GtE: ">=?"}[type(op)]
                return f"({l} {sym} {r})%Z", "bool"
            raise Unsupported(e, "comparison operator")
        if isinstance(e, ast.Tuple):
            if len(e.elts) < 2:
                raise Unsupported(e, "tuple display with fewer than two elements")
            parts = [self.expr(x, env) for x in e.elts]
            return "(" + ", ".join(t for t, _ in parts) + ")", "(" + " * ".join(ty for _, ty in parts) + ")"
        if isinstance(e, ast.Dict):
            if e.keys:
                raise Unsupported(e, "dict display other than {}")
            return "nil", (want if want and dict_kv(want) else "(pydict _ _)")
        if isinstance(e, ast.JoinedStr):
            return self.fstring(e, env), "string"
        if isinstance(e, ast.Subscript):
            return self.subscript(e, env)
        if isinstance(e, (ast.ListComp, ast.GeneratorExp)):
            return self.comprehension(e, env)
        if isinstance(e, ast.DictComp):
            return self.dictcomp(e, env)
        if isinstance(e, ast.Call):
            return self.call(e, env, want)
        raise Unsupported(e, "expression")

    def need(self, ty, expect, node):
        if ty != expect:
            raise Unsupported(node, f"expected {expect}, found {ty}")

    def fstring(self, e: ast.JoinedStr, env: Env) -> str:
        parts = []
        for v in e.values:
            if isinstance(v, ast.Constant) and isinstance(v.value, str):
                if v.value:
                    parts.append(self.expr(v, env)[0])
            elif isinstance(v, ast.FormattedValue) and v.conversion == -1 and v.format_spec is None:
                t, ty = self.expr(v.value, env)
                if ty == "string":
                    parts.append(t)
                elif ty == "Z":
                    parts.append(f"(show_Z {t})")
                else:
                    raise Unsupported(v, f"str() of a value of type {ty}")
            else:
                raise Unsupported(v, "f-string piece")
        if not parts:
            return '""%string'
        return "(" + " ++ ".join(parts) + ")%string" if len(parts) > 1 else parts[0]

    def attribute(self, e: ast.Attribute, env: Env):
        # self.X
        if isinstance(e.value, ast.Name) and e.value.id == "self" and "self" not in env.types:
            if env.method == "prop":
                ctor, fields, props = self.records[env.self_type]
                for fn, ty in fields:
                    if fn == e.attr:
                        return f"({env.self_type}_{fn} self)", ty
                raise Unsupported(e, "no such field")
            if e.attr in env.self_attrs:
                return env.self_attrs[e.attr]
            raise Unsupported(e, "attribute of self that __init__ does not assign (before this point)")
        # a variable that passed isinstance(v, Tensor)
        if isinstance(e.value, ast.Name) and e.value.id in env.refined:
            fields = env.refined[e.value.id]
            if e.attr not in fields:
                raise Unsupported(e, "attribute of a Tensor that is not among " + ", ".join(a for a, _ in self.tensor_attrs))
            return fields[e.attr], dict(self.tensor_attrs)[e.attr]
        x, xt = self.expr(e.value, env)
        if xt in self.records:
            ctor, fields, props = self.records[xt]
            for fn, ty in fields:
                if fn == e.attr:
                    return f"({xt}_{fn} {x})", ty
            if e.attr in props:
                return f"({props[e.attr][0]} {x})", props[e.attr][1]
            raise Unsupported(e, f"no field / translated property {e.attr} on {xt}")
        if xt == "ex_assignment":
            for fn, ty in self.U.inds[xt][0].fields:
                if fn == e.attr:
                    return f"(ex_assignment_{fn} {x})", ty
            raise Unsupported(e, "no such field")
        if xt == "ex_expr":
            # field of a value whose class is one of several: AttributeError on the others
            have = [ct for ct in self.U.inds[xt] if any(fn == e.attr for fn, _ in ct.fields)]
            tys = {ty for ct in have for fn, ty in ct.fields if fn == e.attr}
            if not have or len(tys) != 1:
                raise Unsupported(e, "no such field")
            arms = []
            for ct in have:
                pat = " ".join("x_" if fn == e.attr else "_" for fn, _ in ct.fields)
                arms.append(f"{ct.coq} {pat} => Ret x_")
            if len(have) < len(self.U.inds[xt]):
                arms.append('_ => Raise (builtin_exc "AttributeError")')
            return self.effect(env, e.attr, f"match {x} with " + " | ".join(arms) + " end"), tys.pop()
        if xt == "pyarg":
            # attribute of an argument object that no isinstance test guards
            if e.attr not in dict(self.tensor_attrs):
                raise Unsupported(e, "attribute of a Tensor that is not among " + ", ".join(a for a, _ in self.tensor_attrs))
            pat = " ".join("x_" if a == e.attr else "_" for a, _ in self.tensor_attrs)
            text = f'match {x} with PyTensor {pat} => Ret x_ | PyOther => Raise (builtin_exc "AttributeError") end'
            return self.effect(env, e.attr, text), dict(self.tensor_attrs)[e.attr]
        raise Unsupported(e, f"attribute of a value of type {xt}")

    def subscript(self, e: ast.Subscript, env: Env):
        x, xt = self.expr(e.value, env)
        if isinstance(e.slice, ast.Slice):
            s = e.slice

            def lit(n):
                return n is None or (isinstance(n, ast.Constant) and isinstance(n.value, int)
                                     and not isinstance(n.value, bool) and n.value >= 0)

            if is_list(xt) and s.step is None and lit(s.lower) and lit(s.upper):
                lo = s.lower.value if s.lower is not None else 0
                t = f"(skipn {lo} {x})" if lo else x
                if s.upper is not None:
                    t = f"(firstn {max(0, s.upper.value - lo)} {t})"
                return t, xt
            raise Unsupported(e, "slice other than xs[<non-negative literal>:<non-negative literal>]")
        kv = dict_kv(xt)
        if kv and not unknown(xt):
            k, kt = self.expr(e.slice, env)
            self.need(kt, kv[0], e)
            return self.effect(env, "item", f'of_opt "KeyError" (dict_get {self.eqb(kt, e)} {k} {x})'), kv[1]
        if is_list(xt) and not unknown(xt):
            i, it = self.expr(e.slice, env)
            self.need(it, "Z", e)
            return self.effect(env, "item", f'of_opt "IndexError" (py_getitem {x} {i})'), elt(xt)
        parts = split_product(xt)
        if parts and isinstance(e.slice, ast.Constant) and isinstance(e.slice.value, int) \
                and not isinstance(e.slice.value, bool) and 0 <= e.slice.value < len(parts):
            i = e.slice.value
            pat = ", ".join("x_" if j == i else "_" for j in range(len(parts)))
            return f"(let '({pat}) := {x} in x_)", parts[i]
        raise Unsupported(e, f"subscript of a value of type {xt}")

    def comprehension(self, e, env: Env):
        """[elt for target in it (if c)*] -> map / filter; with an element that may raise: rmap."""
        if len(e.generators) != 1 or e.generators[0].is_async:
            raise Unsupported(e, "comprehension with several `for`s")
        g = e.generators[0]
        src, et = self.iterable(g.iter, env)  # evaluated once, in the enclosing scope: its effects are ours
        inner = env.clone()
        pat = self.pattern(g.target, et, inner, e)
        for cond in g.ifs:
            c, cty = self.pure(cond, inner)
            self.need(cty, "bool", e)
            src = f"(filter (fun {pat} => {c}) {src})"
        body, bty = self.expr(e.elt, inner)
        eff = inner.take()
        if eff:
            v = self.effect(env, "items", f"rmap (fun {pat} =>\n    {wrap(eff, f'Ret {body}')}) {src}")
            return v, f"(list {bty})"
        return f"(map (fun {pat} => {body}) {src})", f"(list {bty})"

    def dictcomp(self, e: ast.DictComp, env: Env):
        """{k: v for k, v in d.items() if c}: the entries of d that satisfy c, in d's order."""
        if len(e.generators) != 1 or e.generators[0].is_async:
            raise Unsupported(e, "dict comprehension shape")
        g = e.generators[0]
        ok = (isinstance(g.iter, ast.Call) and isinstance(g.iter.func, ast.Attribute) and g.iter.func.attr == "items"
              and not g.iter.args and not g.iter.keywords
              and isinstance(g.target, ast.Tuple) and len(g.target.elts) == 2
              and all(isinstance(x, ast.Name) for x in g.target.elts)
              and isinstance(e.key, ast.Name) and e.key.id == g.target.elts[0].id
              and isinstance(e.value, ast.Name) and e.value.id == g.target.elts[1].id
              and e.key.id != e.value.id)
        if not ok:
            raise Unsupported(e, "dict comprehension other than {k: v for k, v in d.items() if c}")
        d, dt = self.expr(g.iter.func.value, env)
        kv = dict_kv(dt)
        if not kv or unknown(dt):
            raise Unsupported(e, ".items() of a non-dict")
        inner = env.clone()
        pat = self.pattern(g.target, f"({kv[0]} * {kv[1]})", inner, e)
        src = d
        for cond in g.ifs:
            c, cty = self.pure(cond, inner)
            self.need(cty, "bool", e)
            src = f"(filter (fun {pat} => {c}) {src})"
        return src, dt

    def call(self, e: ast.Call, env: Env, want):
        f = e.func
        if isinstance(f, ast.Name) and f.id not in env.types:
            if e.keywords:
                raise Unsupported(e, "keyword arguments")
            if f.id == "tuple" and len(e.args) == 1:
                if isinstance(e.args[0], ast.GeneratorExp):
                    return self.comprehension(e.args[0], env)
                x, xt = self.expr(e.args[0], env)
                if is_list(xt) and not unknown(xt):
                    return x, xt
                raise Unsupported(e, f"tuple() of a value of type {xt}")
            if f.id == "set" and len(e.args) == 1:
                x, xt = self.expr(e.args[0], env)
                if is_set(xt):
                    return x, xt
                if is_list(xt) and not unknown(xt):
                    return f"(set_of_list {self.eqb(elt(xt), e)} {x})", f"(pyset {elt(xt)})"
                raise Unsupported(e, f"set() of a value of type {xt}")
            if f.id == "len" and len(e.args) == 1:
                x, xt = self.expr(e.args[0], env)
                if (is_list(xt) or is_set(xt) or dict_kv(xt)) and not unknown(xt):
                    return f"(Z.of_nat (List.length {x}))", "Z"
                raise Unsupported(e, f"len() of a value of type {xt}")
            raise Unsupported(e, f"call of {f.id}")
        if isinstance(f, ast.Attribute) and not e.keywords:
            # sep.join(<list or generator of strings>)
            if f.attr == "join" and isinstance(f.value, ast.Constant) and isinstance(f.value.value, str) and len(e.args) == 1:
                a = e.args[0]
                xs, xt = self.comprehension(a, env) if isinstance(a, ast.GeneratorExp) else self.expr(a, env)
                self.need(xt, "(list string)", e)
                return f"(py_join {self.expr(f.value, env)[0]} {xs})", "string"
            if f.attr in ("keys", "values", "items") and not e.args:
                x, xt = self.expr(f.value, env)
                kv = dict_kv(xt)
                if not kv or unknown(xt):
                    raise Unsupported(e, f".{f.attr}() of a value of type {xt}")
                if f.attr == "keys":
                    return f"(map fst {x})", f"(list {kv[0]})"
                if f.attr == "values":
                    return f"(map snd {x})", f"(list {kv[1]})"
                return x, f"(list ({kv[0]} * {kv[1]}))"
            if f.attr == "index_participants" and not e.args:
                x, xt = self.expr(f.value, env)
                if xt != "ex_expr":
                    raise Unsupported(e, f"index_participants() of a value of type {xt}")
                self.used_oracles.add("ord_set")
                return f"(Expression_index_participants ord_set {x})", "(pydict string (pyset (string * Z)))"
        raise Unsupported(e, "call")

    # ------------------------------------------------------------------ statements
    def message_vals(self, node: ast.Raise, env: Env):
        """(class name, rendered formatted values) of `raise Cls(f"...")` / `raise Cls(a, b)`."""
        exc = node.exc
        if node.cause is not None or not isinstance(exc, ast.Call) or not isinstance(exc.func, ast.Name) or exc.keywords:
            raise Unsupported(node, "raise other than `raise Cls(...)`")
        pieces = []
        if len(exc.args) == 1 and isinstance(exc.args[0], ast.JoinedStr):
            pieces = [v.value for v in exc.args[0].values if isinstance(v, ast.FormattedValue)]
        else:
            pieces = [a for a in exc.args if not isinstance(a, ast.Constant)]
        vals = []
        for p in pieces:
            n = len(env.pending)
            try:
                t, ty = self.expr(p, env)
                if len(env.pending) != n:
                    raise Unsupported(p, "effect")
                vals.append(f"VStr {t}" if ty == "string" else f"VInt {t}" if ty == "Z" else "VOpaque")
            except Unsupported:
                del env.pending[n:]
                vals.append("VOpaque")
        return exc.func.id, vals

    def raise_text(self, node: ast.Raise, env: Env) -> str:
        cls, vals = self.message_vals(node, env)
        site = env.sites[id(node)]
        return f'Raise (PyExc "{cls}" {site} [{"; ".join(vals)}])'

    def ends_in_raise(self, stmts) -> bool:
        return bool(stmts) and isinstance(stmts[-1], ast.Raise)

    def assigned(self, stmts) -> list[str]:
        out = []

        def add(n):
            if n not in out:
                out.append(n)

        for s in stmts:
            for node in ast.walk(s):
                if isinstance(node, ast.Assign):
                    for t in node.targets:
                        if isinstance(t, ast.Subscript) and isinstance(t.value, ast.Name):
                            add(t.value.id)
                        elif isinstance(t, ast.Attribute):
                            raise Unsupported(node, "attribute assignment inside a loop")
                        else:
                            for x in ast.walk(t):
                                if isinstance(x, ast.Name):
                                    add(x.id)
                elif isinstance(node, ast.For):
                    for x in ast.walk(node.target):
                        if isinstance(x, ast.Name):
                            add(x.id)
                elif isinstance(node, (ast.AugAssign, ast.AnnAssign, ast.NamedExpr, ast.With, ast.Try, ast.While,
                                       ast.Delete, ast.Global, ast.Nonlocal, ast.Return, ast.Break, ast.Continue,
                                       ast.Match, ast.FunctionDef, ast.Lambda)):
                    raise Unsupported(node, "statement inside a loop")
        return out

    def block(self, stmts, env: Env, k) -> str:
        """Text of the statements followed by the continuation k(env)."""
        if not stmts:
            return k(env)
        s, rest = stmts[0], stmts[1:]
        if isinstance(s, ast.Pass) or (isinstance(s, ast.Expr) and isinstance(s.value, ast.Constant)
                                       and isinstance(s.value.value, str)):
            return self.block(rest, env, k)
        if isinstance(s, ast.Raise):
            return self.raise_text(s, env)  # statements after a raise are dead
        if isinstance(s, ast.Return):
            if env.method != "prop" or rest or s.value is None:
                raise Unsupported(s, "return")
            t, ty = self.pure(s.value, env)
            env.types["return"] = ty
            return t
        if isinstance(s, ast.Assign) and len(s.targets) == 1:
            tg = s.targets[0]
            if isinstance(tg, ast.Name):
                return self.assign_name(tg.id, s, rest, env, k)
            if isinstance(tg, ast.Tuple) and all(isinstance(x, ast.Name) for x in tg.elts):
                t, ty = self.expr(s.value, env)
                binds = env.take()
                if any(x.id == "self" or (x.id != "_" and env.types.get(x.id, "").startswith("(pydict")) for x in tg.elts):
                    raise Unsupported(s, "tuple assignment to self / over a dict variable")
                pat = self.pattern(tg, ty, env, s)
                return wrap(binds, f"let {pat} := {t} in\n    {self.block(rest, env, k)}")
            if isinstance(tg, ast.Attribute) and isinstance(tg.value, ast.Name) and tg.value.id == "self" \
                    and env.method == "init":
                t, ty = self.expr(s.value, env)
                binds = env.take()
                if unknown(ty):
                    raise Unsupported(s, "cannot infer the type of the attribute")
                var = f"self_{tg.attr}"
                env.self_attrs[tg.attr] = (var, ty)
                return wrap(binds, f"let {var} := {t} in\n    {self.block(rest, env, k)}")
            if isinstance(tg, ast.Subscript) and isinstance(tg.value, ast.Name) and not isinstance(tg.slice, ast.Slice):
                d = tg.value.id
                dt = env.types.get(d, "")
                if not dict_kv(dt) or d not in env.own_dicts:
                    raise Unsupported(s, "item assignment other than to a local dict made by {}")
                kx, kt = self.expr(tg.slice, env)
                vx, vt = self.expr(s.value, env)
                binds = env.take()
                if unknown(dt):
                    if unknown(kt) or unknown(vt):
                        raise Unsupported(s, "cannot infer the type of the dict")
                    dt = env.types[d] = f"(pydict {kt} {vt})"
                if (kt, vt) != dict_kv(dt):
                    raise Unsupported(s, f"store of a ({kt}, {vt}) into a {dt}")
                return wrap(binds, f"let {safe(d)} := dict_set {self.eqb(kt, s)} {kx} {vx} {safe(d)} in\n    "
                                   f"{self.block(rest, env, k)}")
            raise Unsupported(s, "assignment target")
        if isinstance(s, ast.If):
            return self.if_stmt(s, rest, env, k)
        if isinstance(s, ast.For):
            return self.for_stmt(s, rest, env, k)
        raise Unsupported(s, "statement")

    def assign_name(self, name, s, rest, env: Env, k) -> str:
        if name == "self" or name == "_":
            raise Unsupported(s, "assignment to self / _")
        lenient = self.ends_in_raise(rest) and all(isinstance(r, (ast.Assign, ast.Raise)) for r in rest)
        n = len(env.pending)
        try:
            t, ty = self.expr(s.value, env, want=env.types.get(name))
        except Unsupported:
            if not lenient:
                raise
            # a value computed only to build the message of the exception raised next
            del env.pending[n:]
            env.types[name] = "opaque"
            return self.block(rest, env, k)
        binds = env.take()
        env.refined.pop(name, None)
        env.own_dicts.discard(name)
        if dict_kv(ty):
            if isinstance(s.value, ast.Dict):
                env.own_dicts.add(name)
        if ty == "pyarg" or ty == "opaque":
            pass
        env.types[name] = ty
        body = self.block(rest, env, k)
        ty = env.types.get(name, ty)  # `d = {}`: the first store told the types
        if unknown(ty):
            if ty != "(pydict _ _)":
                raise Unsupported(s, "cannot infer the type of the assigned value")
            return wrap(binds, f"let {safe(name)} := {t} in\n    {body}")
        return wrap(binds, f"let {safe(name)} : {ty} := {t} in\n    {body}")

    def if_stmt(self, s: ast.If, rest, env: Env, k) -> str:
        # `if not isinstance(v, Tensor): raise ...`: afterwards v is a Tensor
        t = s.test
        if isinstance(t, ast.UnaryOp) and isinstance(t.op, ast.Not) and isinstance(t.operand, ast.Call) \
                and isinstance(t.operand.func, ast.Name) and t.operand.func.id == "isinstance":
            c = t.operand
            if len(c.args) != 2 or c.keywords or not isinstance(c.args[0], ast.Name) or not isinstance(c.args[1], ast.Name) \
                    or c.args[1].id != "Tensor" or "Tensor" in env.types or "isinstance" in env.types:
                raise Unsupported(s, "isinstance test other than isinstance(<variable>, Tensor)")
            v = c.args[0].id
            if env.types.get(v) != "pyarg":
                raise Unsupported(s, f"isinstance test of a value of type {env.types.get(v)}")
            if s.orelse or not self.ends_in_raise(s.body):
                raise Unsupported(s, "`if not isinstance(...)` whose body does not end in raise")
            e1 = env.clone()
            a = self.block(list(s.body), e1, k)
            fields = {attr: f"{safe(v)}_{attr}" for attr, _ in self.tensor_attrs}
            env.refined[v] = fields
            b = self.block(rest, env, k)
            pat = " ".join(fields[a_] for a_, _ in self.tensor_attrs)
            return f"match {safe(v)} with\n    | PyOther => {a}\n    | PyTensor {pat} =>\n    {b}\n    end"
        if any(isinstance(n, ast.Call) and isinstance(n.func, ast.Name) and n.func.id == "isinstance" for n in ast.walk(t)):
            raise Unsupported(s, "isinstance test other than `if not isinstance(<variable>, Tensor): ... raise`")
        c, cty = self.expr(t, env)
        self.need(cty, "bool", s)
        binds = env.take()
        e1, e2 = env.clone(), env.clone()
        a = self.block(list(s.body) + ([] if self.ends_in_raise(s.body) else list(rest)), e1, k)
        b = self.block(list(s.orelse) + ([] if self.ends_in_raise(s.orelse) else list(rest)), e2, k)
        # types learnt on the paths (a dict's first store) flow back
        for src in (e1, e2):
            for n, ty in src.types.items():
                if n in env.types and unknown(env.types[n]) and not unknown(ty):
                    env.types[n] = ty
        return wrap(binds, f"if {c} then {a}\n    else {b}")

    def for_stmt(self, s: ast.For, rest, env: Env, k) -> str:
        if s.orelse:
            raise Unsupported(s, "for ... else")
        strict_check = None
        it = s.iter
        if isinstance(it, ast.Call) and isinstance(it.func, ast.Name) and it.func.id == "zip" and "zip" not in env.types:
            strict = False
            for kw in it.keywords:
                if kw.arg == "strict" and isinstance(kw.value, ast.Constant) and kw.value.value is True:
                    strict = True
                else:
                    raise Unsupported(s, "keyword of zip")
            if len(it.args) not in (2, 3):
                raise Unsupported(s, "zip of other than two or three iterables")
            srcs = [self.iterable(a, env) for a in it.args]
            n = len(srcs)
            src = f"(zip{n} " + " ".join(t for t, _ in srcs) + ")"
            et = "(" + " * ".join(ty for _, ty in srcs) + ")"
            if strict:
                strict_check = f"(zip{n}_same " + " ".join(t for t, _ in srcs) + ")"
        else:
            if isinstance(it, ast.Call) and isinstance(it.func, ast.Attribute) and it.func.attr == "items":
                t, ty = self.expr(it, env)
                src, et = t, elt(ty)
            else:
                src, et = self.iterable(it, env)
        binds = env.take()
        assigned = self.assigned(s.body)
        targets = [x.id for x in ast.walk(s.target) if isinstance(x, ast.Name)]
        carried = [n for n in assigned if n in env.types and n not in targets]
        if any(t in env.types for t in targets if t != "_"):
            raise Unsupported(s, "loop variable shadows a variable of the enclosing block")
        if len(carried) == 0:
            accpat, accval, acc0 = "(acc_ : unit)", "acc_", "tt"
        elif len(carried) == 1:
            accpat = accval = acc0 = safe(carried[0])
        else:
            accval = acc0 = "(" + ", ".join(safe(n) for n in carried) + ")"
            accpat = "'" + accval
        inner = env.clone()
        pat = self.pattern(s.target, et, inner, s)
        body = self.block(list(s.body), inner, lambda e_: f"Ret {accval}")
        for n in carried:
            t0, t1 = env.types[n], inner.types[n]
            if t0 != t1:
                if not unknown(t0):
                    raise Unsupported(s, f"variable {n} changes type in the loop")
                env.types[n] = t1
        after = self.block(rest, env, k)  # the loop variables are not available after the loop
        if strict_check:
            after = f'if {strict_check} then {after}\n    else Raise (builtin_exc "ValueError")'
        outpat = "_" if not carried else accpat
        return wrap(binds, f"rbind (rfold (fun {accpat} {pat} =>\n    {body}) {src} {acc0}) (fun {outpat} =>\n    {after})")


# --------------------------------------------------------------------------------------------
# slicing of the two methods
# --------------------------------------------------------------------------------------------


def find_class(tree: ast.Module, name: str) -> ast.ClassDef:
    found = [n for n in tree.body if isinstance(n, ast.ClassDef) and n.name == name]
    if len(found) != 1:
        raise Unsupported(ast.Constant(name), "class not found (or defined twice)")
    return found[0]


def imports_name(tree: ast.Module, module_suffix: str, name: str) -> bool:
    for n in tree.body:
        if isinstance(n, ast.ImportFrom) and (n.module or "").split(".")[-1] == module_suffix:
            if any(a.name == name and a.asname is None for a in n.names):
                return True
    return False


def number_raises(fn: ast.FunctionDef) -> dict[int, int]:
    rs = sorted((n for n in ast.walk(fn) if isinstance(n, ast.Raise)), key=lambda n: (n.lineno, n.col_offset))
    return {id(n): i for i, n in enumerate(rs)}


def is_self_attr(node, attr=None) -> bool:
    return isinstance(node, ast.Attribute) and isinstance(node.value, ast.Name) and node.value.id == "self" \
        and (attr is None or node.attr == attr)


def slice_init(fn: ast.FunctionDef):
    """(decision statements, the signature statement, tail).  Shape:
         <statements: the broadcast check and the `self._x = ...` attributes>
         self.signature = Signature([Parameter(v, Parameter.KEYWORD_ONLY, annotation=Tensor) for v in <names>])
         match backend: ...            (code generation: not translated; may only assign self._lib / self._evaluate)
    """
    a = fn.args
    if [x.arg for x in a.args] != ["self", "problem", "backend"] or a.vararg or a.kwarg or a.kwonlyargs or a.posonlyargs \
            or fn.decorator_list:
        raise Unsupported(fn, "signature of TensorMethod.__init__")
    if ast.unparse(a.args[1].annotation) != "Problem":
        raise Unsupported(fn, "annotation of `problem`")
    idx = [i for i, s in enumerate(fn.body) if isinstance(s, ast.Assign) and len(s.targets) == 1
           and is_self_attr(s.targets[0], "signature")]
    if len(idx) != 1:
        raise Unsupported(fn, "expected exactly one top-level `self.signature = ...` in __init__")
    i = idx[0]
    sig = fn.body[i]
    tail = fn.body[i + 1:]
    for s in tail:
        for n in ast.walk(s):
            if isinstance(n, (ast.Assign, ast.AugAssign, ast.AnnAssign)):
                tg = n.targets if isinstance(n, ast.Assign) else [n.target]
                for t in tg:
                    for x in ast.walk(t):
                        if is_self_attr(x) and x.attr not in ("_lib", "_evaluate"):
                            raise Unsupported(n, "code generation part of __init__ assigns a validated attribute")
            if isinstance(n, ast.Call) and isinstance(n.func, ast.Name) and n.func.id in ("setattr", "delattr"):
                raise Unsupported(n, "setattr in __init__")
    return fn.body[:i], sig, tail


def signature_names(sig: ast.Assign) -> ast.expr:
    """The iterable of parameter names of
       Signature([Parameter(v, Parameter.KEYWORD_ONLY, annotation=Tensor) for v in <names>])."""
    v = sig.value
    ok = (isinstance(v, ast.Call) and isinstance(v.func, ast.Name) and v.func.id == "Signature" and len(v.args) == 1
          and not v.keywords and isinstance(v.args[0], ast.ListComp) and len(v.args[0].generators) == 1)
    if ok:
        lc = v.args[0]
        g = lc.generators[0]
        p = lc.elt
        ok = (not g.ifs and not g.is_async and isinstance(g.target, ast.Name)
              and isinstance(p, ast.Call) and isinstance(p.func, ast.Name) and p.func.id == "Parameter"
              and len(p.args) == 2 and isinstance(p.args[0], ast.Name) and p.args[0].id == g.target.id
              and ast.unparse(p.args[1]) == "Parameter.KEYWORD_ONLY"
              and [(kw.arg, ast.unparse(kw.value)) for kw in p.keywords] == [("annotation", "Tensor")])
    if not ok:
        raise Unsupported(sig, "signature other than keyword-only Tensor parameters named by a list")
    return v.args[0].generators[0].iter


def slice_call(fn: ast.FunctionDef):
    """(name of the bound-arguments variable, decision statements, name of the result variable).  Shape:
         <v> = self.signature.bind(*args, **kwargs).arguments          library step, modelled by Validate.bind
         <decision statements>
         <w> = allocate_taco_structure(<modes>, <output dimensions variable>, <ordering>)
         ... exactly one call of self._evaluate, no further `raise` before it ...
    """
    a = fn.args
    if [x.arg for x in a.args] != ["self"] or not a.vararg or not a.kwarg or a.kwonlyargs or a.posonlyargs or a.defaults \
            or fn.decorator_list:
        raise Unsupported(fn, "signature of TensorMethod.__call__")
    body = [s for s in fn.body if not (isinstance(s, ast.Expr) and isinstance(s.value, ast.Constant))]
    first = body[0]
    want = f"self.signature.bind(*{a.vararg.arg}, **{a.kwarg.arg}).arguments"
    if not (isinstance(first, ast.Assign) and len(first.targets) == 1 and isinstance(first.targets[0], ast.Name)
            and ast.unparse(first.value) == want):
        raise Unsupported(first, f"first statement of __call__ is not `<v> = {want}`")
    bound = first.targets[0].id
    idx = [i for i, s in enumerate(body) if isinstance(s, ast.Assign) and isinstance(s.value, ast.Call)
           and isinstance(s.value.func, ast.Name) and s.value.func.id == "allocate_taco_structure"]
    if len(idx) != 1:
        raise Unsupported(fn, "expected exactly one top-level `allocate_taco_structure(...)` in __call__")
    i = idx[0]
    alloc = body[i].value
    if len(alloc.args) != 3 or alloc.keywords or not isinstance(alloc.args[1], ast.Name):
        raise Unsupported(body[i], "arguments of allocate_taco_structure")
    result = alloc.args[1].id
    decision, tail = body[1:i], body[i:]
    # the kernel is entered in the tail only, once, and nothing is raised between the decision and the kernel
    def calls_evaluate(n):
        return isinstance(n, ast.Call) and is_self_attr(n.func, "_evaluate")

    for s in decision:
        for n in ast.walk(s):
            if is_self_attr(n) and n.attr in ("_evaluate", "_lib"):
                raise Unsupported(n, "the kernel is mentioned inside the validation statements")
            if isinstance(n, ast.Name) and n.id in (a.vararg.arg, a.kwarg.arg):
                raise Unsupported(n, "the raw arguments are used after binding")
    pos = [j for j, s in enumerate(tail) if any(calls_evaluate(n) for n in ast.walk(s))]
    if len(pos) != 1 or sum(1 for n in ast.walk(ast.Module(body=tail, type_ignores=[])) if calls_evaluate(n)) != 1:
        raise Unsupported(fn, "expected exactly one call of self._evaluate after the validation")
    for s in tail[:pos[0] + 1]:
        for n in ast.walk(s):
            if isinstance(n, (ast.Raise, ast.Return, ast.Try, ast.If, ast.For, ast.While, ast.With, ast.Match)):
                raise Unsupported(n, "control flow between the validation and the kernel call")
    return bound, decision, result


# --------------------------------------------------------------------------------------------
# the generated file
# --------------------------------------------------------------------------------------------


def record_text(name: str, ctor: str, fields) -> str:
    out = [f"Inductive {name} : Type :=\n  | {ctor} " + " ".join(f"({safe(fn)} : {ty})" for fn, ty in fields) + "\n."]
    for i, (fn, ty) in enumerate(fields):
        pat = " ".join("x_" if j == i else "_" for j in range(len(fields)))
        out.append(f"Definition {name}_{fn} (r_ : {name}) : {ty} := match r_ with {ctor} {pat} => x_ end.")
    return "\n".join(out) + "\n"


def dataclass_fields(tree: ast.Module, name: str, vt: VT):
    cls = find_class(tree, name)
    if not any("dataclass" in ast.unparse(d) for d in cls.decorator_list):
        raise Unsupported(cls, "not a dataclass")
    if cls.bases:
        raise Unsupported(cls, "dataclass with base classes")
    fields = []
    for item in cls.body:
        if isinstance(item, ast.AnnAssign) and isinstance(item.target, ast.Name):
            if item.value is not None:
                raise Unsupported(item, "field with a default")
            fields.append((item.target.id, vt.ann_type(item.annotation, item)))
        elif isinstance(item, ast.Assign):
            raise Unsupported(item, "class attribute")
    if not fields:
        raise Unsupported(cls, "no fields")
    return cls, fields


def gen_tensor_method(src: Path) -> str:
    U = build_expression_universe(src)
    # the shape of the classes of expression/ast.py this file relies on (they are generated in gen/Deparse.v)
    if [(f, t) for f, t in U.inds["ex_assignment"][0].fields] != [("target", "ex_expr"), ("expression", "ex_expr")]:
        raise Unsupported(ast.Constant("Assignment"), "fields of Assignment")
    vt = VT(U, {}, [(a, ty) for a, _, ty in TENSOR_ATTRS])
    out = [PRELUDE.format(src="src/tensora/compile/_tensor_method.py (TensorMethod.__init__, __call__: the validation "
                              "statements), format/_format.py (Mode, Format), problem.py (Problem: fields), tensor.py "
                              "(names of the properties of Tensor)"),
           "From TV Require Import spec.PyLib gen.Deparse.\nOpen Scope string_scope.\n"]
    # ---- Mode, Format, Problem
    ftree = ast.parse((src / "tensora/format/_format.py").read_text())
    members = parse_enum(ftree, "Mode")
    out.append("Inductive Mode : Type :=\n" + "\n".join(f"  | Mode_{m}" for m in members) + "\n.")
    out.append("Definition Mode_eqb (a b : Mode) : bool :=\n  match a, b with\n"
               + "\n".join(f"  | Mode_{m}, Mode_{m} => true" for m in members)
               + ("\n  | _, _ => false" if len(members) > 1 else "") + "\n  end.\n")
    fcls, ffields = dataclass_fields(ftree, "Format", vt)
    vt.records["Format"] = ("MkFormat", ffields, {})
    out.append(record_text("Format", "MkFormat", ffields))
    # properties of Format (`order`)
    for item in fcls.body:
        if isinstance(item, ast.FunctionDef) and [ast.unparse(d) for d in item.decorator_list] == ["property"]:
            if [x.arg for x in item.args.args] != ["self"]:
                raise Unsupported(item, "property signature")
            env = Env(vt, "prop")
            env.self_type = "Format"
            try:
                body = vt.block(list(item.body), env, lambda e_: (_ for _ in ()).throw(Unsupported(item, "property falls off the end")))
            except Unsupported:
                if item.name == "order":
                    raise
                continue  # a property the validation does not need
            ty = env.types["return"]
            out.append(f"Definition Format_{item.name} (self : Format) : {ty} :=\n    {body}.\n")
            vt.records["Format"][2][item.name] = (f"Format_{item.name}", ty)
    ptree = ast.parse((src / "tensora/problem.py").read_text())
    _, pfields = dataclass_fields(ptree, "Problem", vt)
    vt.records["Problem"] = ("MkProblem", pfields, {})
    out.append(record_text("Problem", "MkProblem", pfields))
    # ---- Tensor: the properties the code may read
    ttree = ast.parse((src / "tensora/tensor.py").read_text())
    tcls = find_class(ttree, "Tensor")
    props = {m.name: m for m in tcls.body if isinstance(m, ast.FunctionDef)
             and [ast.unparse(d) for d in m.decorator_list] == ["property"]}
    for attr, ann, _ in TENSOR_ATTRS:
        if attr not in props or props[attr].returns is None or ast.unparse(props[attr].returns) != ann:
            raise Unsupported(ast.Constant(attr), f"Tensor.{attr} is not a property annotated {ann}")
    out.append("(* what the caller hands in for one parameter: a Tensor (the values its properties "
               + ", ".join(a for a, _, _ in TENSOR_ATTRS) + " return) or any other object *)")
    out.append("Inductive pyarg : Type :=\n  | PyTensor " + " ".join(f"({a} : {ty})" for a, _, ty in TENSOR_ATTRS)
               + "\n  | PyOther\n.")
    out.append(SUPPORT)
    # ---- TensorMethod
    mtree = ast.parse((src / "tensora/compile/_tensor_method.py").read_text())
    for mod, name in (("tensor", "Tensor"), ("problem", "Problem")):
        if not imports_name(mtree, mod, name):
            raise Unsupported(ast.Constant(name), f"_tensor_method.py does not import {name} from .{mod}")
    if not any(isinstance(n, ast.ImportFrom) and n.module == "inspect"
               and {a.name for a in n.names} >= {"Parameter", "Signature"} for n in mtree.body):
        raise Unsupported(ast.Constant("inspect"), "Parameter / Signature are not inspect's")
    for n in mtree.body:
        if isinstance(n, (ast.FunctionDef, ast.ClassDef)) and n.name in ("Tensor", "Problem", "Signature", "Parameter", "zip",
                                                                         "isinstance", "tuple", "set", "len"):
            raise Unsupported(n, "a name the translation relies on is redefined")
    cls = find_class(mtree, "TensorMethod")
    if cls.bases:
        raise Unsupported(cls, "TensorMethod has base classes")
    methods = {m.name: m for m in cls.body if isinstance(m, ast.FunctionDef)}
    for m in cls.body:
        if isinstance(m, ast.FunctionDef):
            continue
        if isinstance(m, ast.Expr) and isinstance(m.value, ast.Constant):
            continue
        raise Unsupported(m, "body of class TensorMethod")
    if set(methods) != {"__init__", "__call__"}:
        raise Unsupported(cls, "methods of TensorMethod other than __init__ and __call__")
    for name, m in methods.items():
        if name == "__init__":
            continue
        for n in ast.walk(m):
            if isinstance(n, (ast.Assign, ast.AugAssign, ast.AnnAssign)):
                tg = n.targets if isinstance(n, ast.Assign) else [n.target]
                if any(is_self_attr(x) for t in tg for x in ast.walk(t)):
                    raise Unsupported(n, "attribute of self assigned outside __init__")
    init, call = methods["__init__"], methods["__call__"]
    decision_i, sig, _ = slice_init(init)
    sec = ["Section TensorMethod.",
           "(* iteration order of a set (of index names / of participants): unknown functions of the set *)",
           "Variable ord_set : list string -> list string.",
           "Variable ord_part : list (string * Z) -> list (string * Z).\n"]
    env = Env(vt, "init")
    env.sites = number_raises(init)
    env.types["problem"] = "Problem"
    attrs_holder = {}

    def finish_init(e_: Env) -> str:
        # self.signature: the names of the keyword-only parameters
        names_iter = signature_names(sig)
        t, ty = vt.expr(names_iter, e_)
        binds = e_.take()
        if ty != "(list string)":
            raise Unsupported(sig, f"parameter names of type {ty}")
        e_.self_attrs["signature"] = ("self_signature", "(list string)")
        attrs_holder.update(e_.self_attrs)
        fields = " ".join(v for v, _ in e_.self_attrs.values())
        return wrap(binds, f"let self_signature := {t} in\n    Ret (MkTensorMethod {fields})")

    init_body = vt.block(list(decision_i), env, finish_init)
    attrs = list(attrs_holder.items())  # attribute -> (variable, type), in assignment order
    rec_fields = [(a, ty) for a, (_, ty) in attrs]
    out.append("(* a TensorMethod object: the attributes __init__ stores before it generates code;\n"
               "   [signature] = the names of the parameters, all keyword-only and annotated Tensor *)")
    out.append(record_text("TensorMethod", "MkTensorMethod", rec_fields))
    out.append("\n".join(sec))
    out.append("(* TensorMethod.__init__ up to (excluding) code generation *)")
    out.append(f"Definition TensorMethod_init (problem : Problem) : pyres TensorMethod :=\n    {init_body}.\n")
    # ---- __call__
    bound, decision_c, result = slice_call(call)
    env = Env(vt, "call")
    env.sites = number_raises(call)
    env.types[bound] = "(pydict string pyarg)"
    for a, (_, ty) in attrs:
        env.self_attrs[a] = (f"(TensorMethod_{a} self)", ty)

    def finish_call(e_: Env) -> str:
        if e_.types.get(result) != "(list Z)":
            raise Unsupported(call, f"the output dimensions have type {e_.types.get(result)}")
        return f"Ret {safe(result)}"

    call_body = vt.block(list(decision_c), env, finish_call)
    out.append("(* TensorMethod.__call__ between `self.signature.bind(...).arguments` and the allocation of the output:\n"
               "   [Ret dims] = the kernel is entered, the output has these dimensions; [Raise e] = refused *)")
    out.append(f"Definition TensorMethod_call (self : TensorMethod) ({safe(bound)} : pydict string pyarg) : pyres (list Z) :=\n"
               f"    {call_body}.\n")
    out.append("End TensorMethod.\n")
    return "\n".join(out)


def targets(src: Path) -> dict:
    return {FILE: lambda: gen_tensor_method(src)}
