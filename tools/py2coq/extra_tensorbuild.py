"""py2coq.extra_tensorbuild: tensor construction / read-back regenerated into Gallina.

  tensor.py: coordinates_to_tree, tree_to_indices_and_values, lol_to_coordinates_and_values,
             Tensor.from_aos / from_dok / from_soa / from_lol (explicit dimensions and Format),
             Tensor.items, Tensor.to_dok
  compile/_cffi_ownership.py: the validation parts of allocate_taco_structure and
             taco_structure_to_cffi, weakly_increasing
  format/_format.py: Mode (enum, c_int), Format (fields)
                                                                -> gen/TensorBuildGen.v

A small typed, fail-closed translator of its own (the code here is imperative: closures that mutate
captured lists, dicts mutated in place, generators), see design.d/TIE_tensorbuild.md.  Everything
that is not understood raises Unsupported.  Library: coq/model/TensorBuildPy.v.
"""

from __future__ import annotations

import ast
from pathlib import Path

from .core import Unsupported
from .extra import RESERVED, parse_enum

# ------------------------------------------------------------------------------------------------
# types
# ------------------------------------------------------------------------------------------------
Z, V, B, MODE, TREE, LOL, NONE, FORMAT = "Z", "V", "bool", "Mode", "tree", "lol", "none", "Format"
ELIST, EDICT = ("list", None), ("dict", None, None)


def L(t):
    return ("list", t)


def D(k, t):
    return ("dict", k, t)


def O(t):
    return ("opt", t)


def P(*ts):
    return ("prod", tuple(ts))


def C(t):
    return ("carr", t)


def coq_ty(t) -> str:
    if t in (Z, B, MODE, FORMAT):
        return t
    if t == V:
        return "V"
    if t == TREE:
        return "(pytree V)"
    if t == LOL:
        return "(pylol V)"
    if isinstance(t, tuple):
        if t[0] in ("list", "carr"):
            return f"(list {coq_ty(t[1])})"
        if t[0] == "dict":
            return f"(list ({coq_ty(t[1])} * {coq_ty(t[2])}))"
        if t[0] == "opt":
            return f"(option {coq_ty(t[1])})"
        if t[0] == "prod":
            return "(" + " * ".join(coq_ty(x) for x in t[1]) + ")"
        if t[0] == "rec":  # a dict display with constant string keys: a tuple in key order
            return "(" + " * ".join(coq_ty(x) for _, x in t[1]) + ")"
    raise Unsupported(ast.Constant(str(t)), "type without a Gallina rendering")


def eqb_of(t, node) -> str:
    if t == Z:
        return "Z.eqb"
    if t == B:
        return "Bool.eqb"
    if t == V:
        return "Veqb"
    if t == MODE:
        return "Mode_eqb"
    if isinstance(t, tuple) and t[0] == "list" and t[1] is not None:
        return f"(list_eqb {eqb_of(t[1], node)})"
    raise Unsupported(node, f"no == for type {t}")


def sv(name: str) -> str:
    return name + "_" if name in RESERVED or name in ("fuel", "V", "R") else name


def tup(names) -> str:
    names = list(names)
    if not names:
        return "tt"
    if len(names) == 1:
        return names[0]
    return "(" + ", ".join(names) + ")"


def pat(names) -> str:
    names = list(names)
    if not names:
        return "_"
    if len(names) == 1:
        return names[0]
    return "'(" + ", ".join(names) + ")"


# ------------------------------------------------------------------------------------------------
# the trusted typing tables (unannotated / `Any` parameters and locals).  A wrong entry makes the
# generated file ill-typed (it does not compile) or is caught by the self-check.
# ------------------------------------------------------------------------------------------------
ITEM = P(L(Z), V)
PARAMS = {
    "coordinates_to_tree": {"coordinates": L(L(Z)), "values": L(V)},
    "coordinates_to_tree.recurse": {"node": D(Z, TREE), "remaining_coordinates": L(Z), "payload": V},
    "tree_to_indices_and_values": {"tree": O(TREE), "modes": L(MODE), "dimensions": L(Z)},
    "tree_to_indices_and_values.recurse": {"node": TREE, "i_level": Z},
    "lol_to_coordinates_and_values": {"data": LOL, "keep_zero": B},
    "lol_to_coordinates_and_values.recurse": {"tree": LOL, "indexes": L(Z)},
    "items.recurse": {"i_level": Z, "prefix": L(Z), "position": Z},
    "from_aos": {"coordinates": L(L(Z)), "values": L(V), "dimensions": L(Z), "format": FORMAT},
    "from_dok": {"dictionary": D(L(Z), V), "dimensions": L(Z), "format": FORMAT},
    "from_soa": {"coordinates": L(L(Z)), "values": L(V), "dimensions": L(Z), "format": FORMAT},
    "from_lol": {"lol": LOL, "dimensions": L(Z), "format": FORMAT},
    "allocate_taco_structure": {"mode_types": L(Z), "dimensions": L(Z), "mode_ordering": L(Z)},
    "taco_structure_to_cffi": {"indices": L(L(L(Z))), "vals": L(V), "mode_types": L(Z), "dimensions": L(Z),
                               "mode_ordering": L(Z)},
    "weakly_increasing": {"list": L(Z)},
    "to_dok": {"explicit_zeros": B},
    "items": {},
    "taco_indices": {},
    "taco_vals": {},
    "__getstate__": {},
    "__setstate__": {"state": ("rec", (("dimensions", L(Z)), ("mode_types", L(Z)), ("mode_ordering", L(Z)),
                                       ("indices", L(L(L(Z)))), ("vals", L(V))))},
    "to_format": {"format": FORMAT},
    "__post_init__": {},
}
STATE = PARAMS["__setstate__"]["state"]
LOCALS = {
    "coordinates_to_tree": {"tree": O(TREE)},
    "tree_to_indices_and_values": {"indexes": L(L(L(Z))), "values": L(V)},
    "lol_to_coordinates_and_values": {"coordinates": L(L(Z)), "values": L(V)},
    "taco_indices": {"indices": L(L(L(Z)))},
}
RETS = {
    "coordinates_to_tree": O(TREE),
    "tree_to_indices_and_values": P(L(L(L(Z))), L(V)),
    "lol_to_coordinates_and_values": P(L(L(Z)), L(V)),
    "weakly_increasing": B,
    "to_dok": D(L(Z), V),
    "taco_indices": L(L(L(Z))),
    "taco_vals": L(V),
    "__getstate__": STATE,
}
STORED = P(L(L(L(Z))), L(V), L(Z), L(Z), L(Z))  # what taco_structure_to_cffi hands to cffi
# the prologue of Tensor.items / to_dok: values read from the C structure are INPUTS (the boundary)
INPUTS = {  # statement -> (variable, type, what of the object it is)
    "order = self.order": ("order", Z, "order"),
    "modes = self.modes": ("modes", L(MODE), "modes"),
    "dimensions = self.dimensions": ("dimensions", L(Z), "dimensions"),
    "mode_ordering = self.mode_ordering": ("mode_ordering", L(Z), "mode_ordering"),
    "cffi_indexes = tensor_cdefs.cast('int32_t***', self.cffi_tensor.indices)": ("cffi_indexes", C(C(C(Z))), "indices"),
    "cffi_values = tensor_cdefs.cast('double*', self.cffi_tensor.vals)": ("cffi_values", C(V), "vals"),
    "cffi_vals = tensor_cdefs.cast('double*', self.cffi_tensor.vals)": ("cffi_vals", C(V), "vals"),
}
# a method translated as a function of the whole object takes these six (the C structure, read through cffi)
SELF = [("order", Z, "order"), ("modes", L(MODE), "modes"), ("dimensions", L(Z), "dimensions"),
        ("mode_ordering", L(Z), "mode_ordering"), ("cffi_indexes", C(C(C(Z))), "indices"), ("cffi_values", C(V), "vals")]
BOUNDARY_WORDS = ("tensor_cdefs", "global_weakkeydict", "memory_holder", "tensor_lib")


# the number type of the values (Python float) and the three operations used on it: 0.0, +, ==
VPARAMS = "(V : Type) (Vzero : V) (Vadd : V -> V -> V) (Veqb : V -> V -> bool)"


class Fn:
    """A translated function: signature and effect shape."""

    def __init__(self, name, coq, params, ro, mut, mut_params, ret, gen, fuel, recursive):
        self.name, self.coq = name, coq
        self.params = params  # [(name, type)]
        self.ro = ro  # read-only captured variables [(name, type)] (lambda lifted)
        self.mut = mut  # captured variables mutated in place [(name, type)]: taken and returned
        self.mut_params = mut_params  # names of parameters mutated in place: returned
        self.ret = ret  # type of the returned value (None when nothing is returned)
        self.gen = gen  # yield type of a generator (its result is the list of yields)
        self.fuel = fuel
        self.recursive = recursive

    def result_types(self):
        r = [t for _, t in self.mut] + [t for n, t in self.params if n in self.mut_params]
        if self.gen is not None:
            r.append(L(self.gen))
        elif self.ret is not None:
            r.append(self.ret)
        return r


class Env:
    def __init__(self, tr, fn: Fn):
        self.tr, self.fn = tr, fn
        self.types: dict = {}
        self.declared: dict = {}
        self.binds: list = []  # pending (pattern, text, kind) with kind in {"bind", "let"}
        self.counter = tr.counter
        self.static_false: set = set()
        self.selfkeys: dict = {}  # what of the object -> variable holding it
        self.selfattr: dict = {}  # self.<attr> -> (text, type)

    def fresh(self, base="t"):
        self.counter[0] += 1
        return f"{base}_{self.counter[0]}_"

    def bind(self, text, base="t"):
        v = self.fresh(base)
        self.binds.append((v, text, "bind"))
        return v

    def take(self):
        b, self.binds = self.binds, []
        return b

    def copy(self):
        e = Env(self.tr, self.fn)
        e.types, e.declared = dict(self.types), dict(self.declared)
        e.static_false = set(self.static_false)
        e.selfkeys, e.selfattr = dict(self.selfkeys), dict(self.selfattr)
        return e


def wrap(binds, inner: str) -> str:
    for p, text, kind in reversed(binds):
        if kind == "bind":
            if inner == "Val " + p.lstrip("'") and p != "_":
                inner = text  # monad law: rbind e Val = e
                continue
            inner = f"rbind {text} (fun {p} =>\n  {inner})"
        else:
            inner = f"let {p} := {text} in\n  {inner}"
    return inner


class TB:
    def __init__(self):
        self.fns: dict[str, Fn] = {}
        self.counter = [0]
        self.enum_attrs: dict[str, list] = {}
        self.format_fields: list = []
        self.format_property_ok = False
        self.out: list[str] = []

    # -------------------------------------------------------------------------------- coercions
    def coerce(self, t: str, frm, to, env: Env, node) -> str:
        if frm == to:
            return t
        if isinstance(frm, tuple) and isinstance(to, tuple) and frm[0] in ("list", "carr") and to[0] == "list":
            if frm[1] is None or frm[1] == to[1]:
                return t
        if frm == EDICT and isinstance(to, tuple) and to[0] == "dict":
            return t
        if frm == NONE and isinstance(to, tuple) and to[0] == "opt":
            return "None"
        if isinstance(to, tuple) and to[0] == "opt" and frm != NONE and not (isinstance(frm, tuple) and frm[0] == "opt"):
            return f"(Some {self.coerce(t, frm, to[1], env, node)})"
        if isinstance(frm, tuple) and frm[0] == "opt":
            v = env.bind(f"(of_opt {t})")
            return self.coerce(v, frm[1], to, env, node)
        if to == TREE and frm == V:
            return f"(PLeaf {t})"
        if to == TREE and (frm == EDICT or frm == D(Z, TREE)):
            return f"(PDict {t})"
        if frm == TREE and to == V:
            return env.bind(f"(as_float {t})")
        if frm == TREE and to == D(Z, TREE):
            return env.bind(f"(as_dict {t})")
        if to == LOL and frm == V:
            return f"(LolNum {t})"
        raise Unsupported(node, f"cannot use a value of type {frm} as {to}")

    def join(self, a, b, node):
        if a == b:
            return a
        if a is None:
            return b
        if b is None:
            return a
        for x, y in ((a, b), (b, a)):
            if x == ELIST and isinstance(y, tuple) and y[0] == "list":
                return y
            if x == EDICT and isinstance(y, tuple) and y[0] == "dict":
                return y
            if isinstance(x, tuple) and isinstance(y, tuple) and x[0] == y[0] == "list":
                return L(self.join(x[1], y[1], node))
        raise Unsupported(node, f"values of types {a} and {b} in one place")

    # -------------------------------------------------------------------------------- expressions
    def expr(self, e, env: Env, want=None):
        """(text, type); partial operations are bound in env.binds, in evaluation order."""
        if isinstance(e, ast.Name):
            if e.id in env.types:
                return sv(e.id), env.types[e.id]
            raise Unsupported(e, "unbound name")
        if isinstance(e, ast.Constant):
            v = e.value
            if isinstance(v, bool):
                return ("true" if v else "false"), B
            if isinstance(v, int):
                return f"({v})%Z", Z
            if isinstance(v, float):
                if v == 0.0 and str(v) == "0.0":
                    return "Vzero", V
                raise Unsupported(e, "float literal other than 0.0")
            if v is None:
                return "None", NONE
            raise Unsupported(e, "constant")
        if isinstance(e, ast.UnaryOp) and isinstance(e.op, ast.USub) and isinstance(e.operand, ast.Constant) \
                and type(e.operand.value) is int:
            return f"(-{e.operand.value})%Z", Z
        if isinstance(e, ast.UnaryOp) and isinstance(e.op, ast.Not):
            t, ty = self.expr(e.operand, env)
            self.need(ty, B, e)
            return f"(negb {t})", B
        if isinstance(e, ast.BoolOp):
            parts = []
            for i, x in enumerate(e.values):
                t, ty = self.pure(x, env) if i else self.expr(x, env)
                self.need(ty, B, e)
                parts.append(t)
            return "(" + (" && " if isinstance(e.op, ast.And) else " || ").join(parts) + ")", B
        if isinstance(e, ast.Compare):
            return self.compare(e, env)
        if isinstance(e, ast.BinOp):
            return self.binop(e.left, e.op, e.right, env, e)
        if isinstance(e, (ast.List, ast.Tuple)):
            return self.display(e, env, want)
        if isinstance(e, ast.Dict) and not e.keys:
            return "[]", EDICT
        if isinstance(e, ast.Dict) and all(isinstance(k, ast.Constant) and isinstance(k.value, str) for k in e.keys) \
                and len({k.value for k in e.keys}) == len(e.keys) >= 2:
            parts = [self.expr(v, env) for v in e.values]
            return "(" + ", ".join(t for t, _ in parts) + ")", ("rec", tuple((k.value, ty) for k, (_, ty) in zip(e.keys, parts)))
        if isinstance(e, ast.Subscript):
            return self.subscript(e, env)
        if isinstance(e, ast.Attribute):
            return self.attribute(e, env)
        if isinstance(e, (ast.ListComp, ast.GeneratorExp)):
            return self.comprehension(e, env)
        if isinstance(e, ast.DictComp):
            return self.dictcomp(e, env)
        if isinstance(e, ast.Call):
            return self.call(e, env)
        raise Unsupported(e, "expression")

    def need(self, ty, expect, node):
        if ty != expect:
            raise Unsupported(node, f"expected {expect}, got {ty}")

    def pure(self, e, env: Env, want=None):
        n = len(env.binds)
        r = self.expr(e, env, want)
        if len(env.binds) != n:
            raise Unsupported(e, "exception-raising operation under a short-circuit operator or lambda")
        return r

    def compare(self, e: ast.Compare, env: Env):
        # chained comparisons: a op b op c  ==  (a op b) and (b op c), b evaluated once
        operands = [e.left] + list(e.comparators)
        if len(operands) == 3:
            # a op b op c: c is evaluated only when (a op b) holds
            saved = env.binds
            env.binds = []
            self.expr(operands[2], env)
            lazy, env.binds = env.binds, saved
            if lazy:
                first = ast.copy_location(ast.Compare(left=operands[0], ops=[e.ops[0]], comparators=[operands[1]]), e)
                if not isinstance(operands[1], ast.Name):
                    raise Unsupported(e, "chained comparison with an effect: the middle operand must be a name")
                a, _ = self.compare(first, env)
                saved = env.binds
                env.binds = []
                second = ast.copy_location(ast.Compare(left=operands[1], ops=[e.ops[1]], comparators=[operands[2]]), e)
                b, _ = self.compare(second, env)
                inner, env.binds = env.binds, saved
                return env.bind(f"(if {a} then {wrap(inner, f'Val {b}')} else Val false)", "c"), B
        vals = []
        for i, x in enumerate(operands):
            # operands after the second are evaluated only if the chain has not failed yet
            vals.append(self.expr(x, env) if i < 2 else self.pure(x, env))
        parts = []
        for i, op in enumerate(e.ops):
            (l, lt), (r, rt) = vals[i], vals[i + 1]
            if isinstance(op, (ast.Is, ast.IsNot)):
                if rt != NONE or not (isinstance(lt, tuple) and lt[0] == "opt"):
                    raise Unsupported(e, "`is` other than `<optional> is None`")
                t = f"(match {l} with None => true | Some _ => false end)"
                parts.append(t if isinstance(op, ast.Is) else f"(negb {t})")
                continue
            if isinstance(op, (ast.In, ast.NotIn)):
                if isinstance(rt, tuple) and rt[0] == "dict" and rt[1] == lt:
                    t = f"(dict_mem {eqb_of(lt, e)} {l} {r})"
                elif isinstance(rt, tuple) and rt[0] == "list" and rt[1] == lt:
                    t = f"(py_in {eqb_of(lt, e)} {l} {r})"
                else:
                    raise Unsupported(e, f"`in` between {lt} and {rt}")
                parts.append(t if isinstance(op, ast.In) else f"(negb {t})")
                continue
            if lt != rt:
                # an Any on one side: use it at the type of the other side
                if lt in (TREE, LOL) or (isinstance(lt, tuple) and lt[0] == "opt"):
                    l, lt = self.coerce(l, lt, rt, env, e), rt
                elif rt in (TREE, LOL) or (isinstance(rt, tuple) and rt[0] == "opt"):
                    r, rt = self.coerce(r, rt, lt, env, e), lt
                else:
                    lt = rt = self.join(lt, rt, e)
            if isinstance(op, (ast.Eq, ast.NotEq)):
                t = f"(zset_eqb {l} {r})" if lt == ("set", Z) else f"({eqb_of(lt, e)} {l} {r})"
                parts.append(t if isinstance(op, ast.Eq) else f"(negb {t})")
                continue
            self.need(lt, Z, e)
            sym = {ast.Lt: "<?", ast.LtE: "<=?", ast.Gt: ">?", ast.GtE: ">=?"}.get(type(op))
            if sym is None:
                raise Unsupported(e, "comparison operator")
            parts.append(f"({l} {sym} {r})")
        return (parts[0] if len(parts) == 1 else "(" + " && ".join(parts) + ")"), B

    def binop(self, left, op, right, env: Env, node):
        l, lt = self.expr(left, env)
        r, rt = self.expr(right, env)
        if isinstance(op, ast.Add):
            if V in (lt, rt):
                l = self.coerce(l, lt, V, env, node)
                r = self.coerce(r, rt, V, env, node)
                return f"(Vadd {l} {r})", V
            if lt == Z and rt == Z:
                return f"({l} + {r})", Z
            if isinstance(lt, tuple) and lt[0] == "list" and isinstance(rt, tuple) and rt[0] == "list":
                return f"({l} ++ {r})", self.join(lt, rt, node)
            raise Unsupported(node, f"+ between {lt} and {rt}")
        if isinstance(op, (ast.Sub, ast.Mult)) and lt == Z and rt == Z:
            return f"({l} {'-' if isinstance(op, ast.Sub) else '*'} {r})", Z
        raise Unsupported(node, f"operator between {lt} and {rt}")

    def display(self, e, env: Env, want):
        if not e.elts:
            return "[]", ELIST
        if ast.unparse(e).startswith("[*zip(*") and len(e.elts) == 1:
            z = e.elts[0].value
            if isinstance(z, ast.Call) and len(z.args) == 1 and isinstance(z.args[0], ast.Starred) \
                    and {k.arg: ast.unparse(k.value) for k in z.keywords} == {"strict": "True"} and "zip" not in env.types:
                t, ty = self.expr(z.args[0].value, env)
                if isinstance(ty, tuple) and ty[0] == "list" and isinstance(ty[1], tuple) and ty[1][0] == "list":
                    return env.bind(f"(py_transpose_strict {t})"), ty
            raise Unsupported(e, "zip(*...) shape")
        if isinstance(e, ast.Tuple) and not any(isinstance(x, ast.Starred) for x in e.elts) and len(e.elts) >= 2:
            parts = [self.expr(x, env) for x in e.elts]
            tys = [t for _, t in parts]
            if isinstance(want, tuple) and want[0] == "prod" or len(set(map(repr, tys))) > 1:
                return "(" + ", ".join(t for t, _ in parts) + ")", P(*tys)
        segs, ety = [], None
        for x in e.elts:
            if isinstance(x, ast.Starred):
                t, ty = self.expr(x.value, env)
                if not (isinstance(ty, tuple) and ty[0] == "list"):
                    raise Unsupported(e, "* of a non-sequence")
                segs.append(t)
                et = ty[1]
            else:
                t, et = self.expr(x, env)
                if isinstance(want, tuple) and want[0] == "list" and want[1] is not None and et != want[1] \
                        and not (isinstance(et, tuple) and None in et):
                    t, et = self.coerce(t, et, want[1], env, e), want[1]
                segs.append(f"[{t}]")
            if et is not None or ety is None:
                ety = et if ety is None else self.join(ety, et, e)
        # merge adjacent singletons
        text = " ++ ".join(segs) if len(segs) > 1 else segs[0]
        if all(s.startswith("[") for s in segs):
            text = "[" + "; ".join(s[1:-1] for s in segs) + "]"
        return (f"({text})" if " ++ " in text else text), L(ety)

    def subscript(self, e: ast.Subscript, env: Env):
        c, ct = self.expr(e.value, env)
        if isinstance(e.slice, ast.Slice) and isinstance(ct, tuple) and ct[0] == "carr":
            s = e.slice
            if s.lower is None or s.upper is None or s.step is not None:
                raise Unsupported(e, "slice of a C array")
            (lo, lt), (hi, ht) = self.expr(s.lower, env), self.expr(s.upper, env)
            self.need(lt, Z, e)
            self.need(ht, Z, e)
            return env.bind(f"(c_slice {c} {lo} {hi})"), L(ct[1])
        if isinstance(ct, tuple) and ct[0] == "rec":
            if not (isinstance(e.slice, ast.Constant) and isinstance(e.slice.value, str)):
                raise Unsupported(e, "record key")
            keys = [k for k, _ in ct[1]]
            if e.slice.value not in keys:
                raise Unsupported(e, "no such key")
            i = keys.index(e.slice.value)
            names = [f"k{j}_" if j == i else "_" for j in range(len(keys))]
            return f"(let '({', '.join(names)}) := {c} in k{i}_)", ct[1][i][1]
        if isinstance(e.slice, ast.Slice):
            s = e.slice
            if s.upper is None and s.step is None and isinstance(s.lower, ast.Constant) and type(s.lower.value) is int \
                    and s.lower.value >= 0 and isinstance(ct, tuple) and ct[0] == "list":
                return f"(py_slice_from {c} ({s.lower.value})%Z)", ct
            raise Unsupported(e, "slice")
        if ct in (TREE,):
            c, ct = self.coerce(c, ct, D(Z, TREE), env, e), D(Z, TREE)
        k, kt = self.expr(e.slice, env)
        if isinstance(ct, tuple) and ct[0] == "dict":
            self.need(kt, ct[1], e)
            return env.bind(f"(of_opt (dict_get {eqb_of(kt, e)} {k} {c}))"), ct[2]
        if isinstance(ct, tuple) and ct[0] in ("list", "carr") and ct[1] is not None:
            self.need(kt, Z, e)
            return env.bind(f"({'r' if ct[0] == 'list' else 'c'}_getitem {c} {k})"), ct[1]
        raise Unsupported(e, f"subscript of a value of type {ct}")

    def attribute(self, e: ast.Attribute, env: Env):
        if isinstance(e.value, ast.Name) and e.value.id == "Mode" and "Mode" not in env.types:
            if e.attr not in [m for m, _ in self.enum_attrs["Mode"]]:
                raise Unsupported(e, "no such Mode")
            return f"Mode_{e.attr}", MODE
        src = ast.unparse(e)
        if src == "cffi_tensor.order" and env.types.get("cffi_tensor") == "cffi":
            return env.types["cffi_tensor.order"]
        if isinstance(e.value, ast.Name) and e.value.id == "self" and "self" not in env.types:
            if e.attr in env.selfattr:
                return env.selfattr[e.attr]
            if e.attr in ("order", "modes", "dimensions", "mode_ordering") and e.attr in env.selfkeys:
                v = env.selfkeys[e.attr]
                return sv(v), env.types[v]
            if e.attr == "format" and "modes" in env.selfkeys and "mode_ordering" in env.selfkeys and self.format_property_ok:
                # the property: Format(self.modes, self.mode_ordering)
                return env.bind(f"(Format_new V Vzero Vadd Veqb {sv(env.selfkeys['modes'])} {sv(env.selfkeys['mode_ordering'])})", "f"), FORMAT
            if e.attr in ("taco_indices", "taco_vals") and e.attr in self.fns:
                return env.bind(self.call_self(self.fns[e.attr], env, e, []), "r"), self.fns[e.attr].ret
            raise Unsupported(e, "attribute of self")
        t, ty = self.expr(e.value, env)
        if ty == FORMAT and e.attr in [f for f, _ in self.format_fields]:
            return f"(Format_{e.attr} {t})", dict(self.format_fields)[e.attr]
        if ty == MODE and e.attr == "c_int":
            return f"(Mode_c_int {t})", Z
        raise Unsupported(e, "attribute")

    def iter_source(self, node, env: Env):
        """(text of the list iterated, element type) of a for / comprehension source."""
        if isinstance(node, ast.Call) and isinstance(node.func, ast.Name) and node.func.id not in env.types:
            f, a = node.func.id, node.args
            if f == "range" and not node.keywords and len(a) in (1, 2):
                xs = []
                for x in a:
                    t, ty = self.expr(x, env)
                    self.need(ty, Z, node)
                    xs.append(t)
                return (f"(zrange {xs[0]})" if len(a) == 1 else f"(zrange2 {xs[0]} {xs[1]})"), Z
            if f == "enumerate" and len(a) == 1 and not node.keywords:
                t, ty = self.expr(a[0], env)
                if not (isinstance(ty, tuple) and ty[0] == "list" and ty[1] is not None):
                    raise Unsupported(node, "enumerate of a non-list")
                return f"(py_enumerate {t})", P(Z, ty[1])
            if f == "pairwise" and len(a) == 1 and not node.keywords:
                t, ty = self.expr(a[0], env)
                if not (isinstance(ty, tuple) and ty[0] == "list" and ty[1] is not None):
                    raise Unsupported(node, "pairwise of a non-list")
                return f"(py_pairwise {t})", P(ty[1], ty[1])
        t, ty = self.expr(node, env)
        if isinstance(ty, tuple) and ty[0] == "dict":
            raise Unsupported(node, "iteration over a dict")
        if isinstance(ty, tuple) and ty[0] == "list" and ty[1] is not None:
            return t, ty[1]
        raise Unsupported(node, f"iteration over a value of type {ty}")

    def target(self, tgt, ty, env: Env, node) -> str:
        if isinstance(tgt, ast.Name):
            env.types[tgt.id] = ty
            env.declared.pop(tgt.id, None)
            return sv(tgt.id)
        if isinstance(tgt, ast.Tuple) and isinstance(ty, tuple) and ty[0] == "prod" and len(ty[1]) == len(tgt.elts):
            return "'(" + ", ".join(self.target(x, t, env, node).lstrip("'") for x, t in zip(tgt.elts, ty[1])) + ")"
        raise Unsupported(node, "loop / assignment target")

    def comprehension(self, e, env: Env):
        if len(e.generators) != 1 or e.generators[0].is_async:
            raise Unsupported(e, "comprehension shape")
        g = e.generators[0]
        it, ety = self.iter_source(g.iter, env)
        inner = env.copy()
        p = self.target(g.target, ety, inner, e)
        conds = []
        for c in g.ifs:
            t, ty = self.pure(c, inner)
            self.need(ty, B, e)
            conds.append(t)
        if conds:
            it = f"(filter (fun {p} => {' && '.join(conds)}) {it})"
        body, bty = self.expr(e.elt, inner)
        binds = inner.take()
        if binds:
            return env.bind(f"(rmap (fun {p} => {wrap(binds, f'Val {body}')}) {it})"), L(bty)
        if isinstance(e.elt, ast.Name) and isinstance(g.target, ast.Name) and e.elt.id == g.target.id:
            return it, L(bty)
        return f"(map (fun {p} => {body}) {it})", L(bty)

    def dictcomp(self, e: ast.DictComp, env: Env):
        fake = ast.ListComp(elt=ast.Tuple(elts=[e.key, e.value], ctx=ast.Load()), generators=e.generators)
        ast.copy_location(fake, e)
        t, ty = self.comprehension(fake, env)
        k, v = ty[1][1]
        return f"(py_dict_of {eqb_of(k, e)} {t})", D(k, v)

    def call(self, e: ast.Call, env: Env):
        f = e.func
        if isinstance(f, ast.Name) and f.id not in env.types:
            n, a = f.id, e.args
            if n == "range":
                t, ety = self.iter_source(e, env)
                return t, L(ety)
            if n == "len" and len(a) == 1 and not e.keywords:
                t, ty = self.expr(a[0], env)
                if ty in (TREE,):
                    t, ty = self.coerce(t, ty, D(Z, TREE), env, e), D(Z, TREE)
                if not (isinstance(ty, tuple) and ty[0] in ("list", "dict")):
                    raise Unsupported(e, f"len of {ty}")
                return f"(Z.of_nat (List.length {t}))", Z
            if n in ("tuple", "list") and len(a) == 1 and not e.keywords:
                t, ty = (self.comprehension(a[0], env) if isinstance(a[0], ast.GeneratorExp) else self.expr(a[0], env))
                if isinstance(ty, tuple) and ty[0] == "list":
                    return t, ty
                raise Unsupported(e, f"{n}() of {ty}")
            if n == "sorted" and len(a) == 1 and not e.keywords:
                t, ty = self.expr(a[0], env)
                self.need(ty, L(Z), e)
                return f"(py_sorted {t})", L(Z)
            if n == "set" and len(a) == 1 and not e.keywords:
                t, ty = self.iter_source(a[0], env)
                self.need(ty, Z, e)
                return t, ("set", Z)
            if n == "all" and len(a) == 1 and isinstance(a[0], ast.GeneratorExp) and not e.keywords:
                g = a[0].generators[0]
                if len(a[0].generators) != 1 or g.ifs:
                    raise Unsupported(e, "all() shape")
                it, ety = self.iter_source(g.iter, env)
                inner = env.copy()
                p = self.target(g.target, ety, inner, e)
                body, bty = self.expr(a[0].elt, inner)
                self.need(bty, B, e)
                binds = inner.take()
                if binds:
                    return env.bind(f"(rall (fun {p} => {wrap(binds, f'Val {body}')}) {it})"), B
                return f"(forallb (fun {p} => {body}) {it})", B
            if n == "dict" and len(a) == 1 and not e.keywords:
                t, ty = self.expr(a[0], env)
                if isinstance(ty, tuple) and ty[0] == "list" and isinstance(ty[1], tuple) and ty[1][0] == "prod" \
                        and len(ty[1][1]) == 2:
                    k, v = ty[1][1]
                    return f"(py_dict_of {eqb_of(k, e)} {t})", D(k, v)
                raise Unsupported(e, "dict() of a non-pair-list")
            if n == "Tensor" and len(a) == 1 and not e.keywords:
                # the wrapper object around the cffi structure: identity
                return self.expr(a[0], env)
            if n in self.fns:
                return self.call_fn(self.fns[n], e, env, stmt=False)
        if isinstance(f, ast.Attribute) and ast.unparse(f.value) == "Tensor" and f.attr in self.fns:
            return self.call_fn(self.fns[f.attr], e, env, stmt=False)
        if isinstance(f, ast.Attribute) and ast.unparse(f) == "self.to_dok" and "self" not in env.types \
                and "to_dok" in self.fns and not e.args and not e.keywords:
            fn = self.fns["to_dok"]
            return env.bind(self.call_self(fn, env, e, ["false"]), "r"), fn.ret
        if isinstance(f, ast.Attribute) and ast.unparse(f) == "self.items" and "self.items()" in env.types:
            if e.args or e.keywords:
                raise Unsupported(e, "self.items() with arguments")
            return "items_", env.types["self.items()"]
        if isinstance(f, ast.Attribute):
            o, ot = self.expr(f.value, env)
            m, a = f.attr, e.args
            if ot == TREE and m in ("get", "keys", "values", "items"):
                o, ot = self.coerce(o, ot, D(Z, TREE), env, e), D(Z, TREE)
            if isinstance(ot, tuple) and ot[0] == "dict":
                if m == "get" and len(a) == 2 and not e.keywords:
                    k, kt = self.expr(a[0], env)
                    self.need(kt, ot[1], e)
                    d, dt = self.expr(a[1], env)
                    d = self.coerce(d, dt, ot[2], env, e)
                    return f"(dict_get_or {eqb_of(kt, e)} {k} {o} {d})", ot[2]
                if m == "keys" and not a and not e.keywords:
                    return f"(map fst {o})", L(ot[1])
                if m == "values" and not a and not e.keywords:
                    return f"(map snd {o})", L(ot[2])
            if isinstance(ot, tuple) and ot[0] == "list" and m == "index" and len(a) == 1 and not e.keywords:
                x, xt = self.expr(a[0], env)
                self.need(xt, ot[1], e)
                return env.bind(f"(of_opt (py_index {eqb_of(xt, e)} {o} {x}))"), Z
        raise Unsupported(e, "call")

    def call_self(self, fn: Fn, env: Env, node, args: list[str]) -> str:
        """Call of a translated method / property on the same object: the parts of the object it reads."""
        texts = []
        for n, ty in fn.ro:
            if n == "items_":
                its = self.fns.get("items")
                if its is None:
                    raise Unsupported(node, "items is not translated")
                texts.append(env.bind(self.call_self(its, env, node, []), "r"))
                continue
            key = fn.self_keys.get(n)
            if key is None or key not in env.selfkeys or env.types.get(env.selfkeys[key]) != ty:
                raise Unsupported(node, f"{fn.name} reads {n} of the object, which is not available here")
            texts.append(sv(env.selfkeys[key]))
        if fn.fuel and not env.fn.fuel:
            raise Unsupported(node, "call of a recursive function from a function without fuel")
        return "(" + " ".join([fn.coq, "V Vzero Vadd Veqb"] + (["fuel"] if fn.fuel else []) + texts + args) + ")"

    def call_fn(self, fn: Fn, e: ast.Call, env: Env, stmt: bool):
        """Call of a translated function.  As an expression it must be effect free on its
        arguments (no captured / parameter mutation); as a statement the mutated state is re-bound."""
        args = {}
        names = [n for n, _ in fn.params]
        for n, a in zip(names, e.args):
            args[n] = a
        if len(e.args) > len(names):
            raise Unsupported(e, "too many arguments")
        for kw in e.keywords:
            if kw.arg not in names or kw.arg in args:
                raise Unsupported(e, "keyword argument")
            args[kw.arg] = kw.value
        for n, d in getattr(fn, "defaults", {}).items():
            args.setdefault(n, d)
        if set(args) != set(names):
            raise Unsupported(e, f"arguments {sorted(set(names) - set(args))} not given (defaults are not translated)")
        texts = []
        for n, ty in fn.params:
            t, tt = self.expr(args[n], env, want=ty)
            texts.append(self.coerce(t, tt, ty, env, e))
        cap = []
        for n, ty in fn.ro + fn.mut:
            if env.types.get(n) != ty:
                raise Unsupported(e, f"captured variable {n} has type {env.types.get(n)} at the call, {ty} expected")
            cap.append(sv(n))
        fuel = ["fuel"] if fn.fuel else []
        text = "(" + " ".join([fn.coq, "V Vzero Vadd Veqb"] + fuel + cap + texts) + ")"
        rts = fn.result_types()
        if not stmt:
            if fn.mut or fn.mut_params:
                raise Unsupported(e, "call of a state-changing function inside an expression")
            if not rts:
                raise Unsupported(e, "value of a function that returns nothing")
            return env.bind(text, "r"), rts[-1]
        return text, args

    # -------------------------------------------------------------------------------- statements
    def assigned(self, stmts) -> list[str]:
        """Names assigned or mutated (root of the mutated path) by the statements, in order."""
        out = []

        def add(n):
            if n not in out:
                out.append(n)

        def root(x):
            while isinstance(x, (ast.Subscript, ast.Attribute)):
                x = x.value
            return x.id if isinstance(x, ast.Name) else None

        def tnames(t):
            if isinstance(t, ast.Name):
                add(t.id)
            elif isinstance(t, (ast.Tuple, ast.List)):
                for x in t.elts:
                    tnames(x)
            else:
                r = root(t)
                if r:
                    add(r)

        def calls(node):
            for c in ast.walk(node):
                if isinstance(c, ast.Call):
                    fn = None
                    if isinstance(c.func, ast.Name):
                        fn = self.fns.get(c.func.id)
                    if fn:
                        for n, _ in fn.mut:
                            add(n)
                        for (pn, _), a in zip(fn.params, c.args):
                            if pn in fn.mut_params and root(a):
                                add(root(a))
                    if isinstance(c.func, ast.Attribute) and c.func.attr in ("append", "extend"):
                        r = root(c.func.value)
                        if r:
                            add(r)

        for s in stmts:
            if isinstance(s, ast.Assign):
                calls(s.value)
                for t in s.targets:
                    tnames(t)
            elif isinstance(s, ast.AugAssign):
                tnames(s.target)
            elif isinstance(s, ast.For):
                for n in self.assigned(s.body):
                    add(n)
            elif isinstance(s, ast.If):
                for n in self.assigned(s.body) + self.assigned(s.orelse):
                    add(n)
            elif isinstance(s, ast.Expr):
                if isinstance(s.value, (ast.Yield, ast.YieldFrom)):
                    add("yield_")
                    if s.value.value is not None:
                        calls(s.value.value)
                else:
                    calls(s.value)
            elif isinstance(s, (ast.Return, ast.Raise, ast.Pass)):
                pass
            elif isinstance(s, ast.FunctionDef):
                pass
            else:
                raise Unsupported(s, "statement")
        return out

    def terminates(self, stmts) -> bool:
        if not stmts:
            return False
        last = stmts[-1]
        if isinstance(last, (ast.Return, ast.Raise)):
            return True
        if isinstance(last, ast.If):
            return self.terminates(last.body) and self.terminates(last.orelse)
        return False

    def has_return(self, stmts) -> bool:
        return any(isinstance(n, ast.Return) for s in stmts for n in ast.walk(s) if not isinstance(s, ast.FunctionDef))

    def finish(self, env: Env) -> str:
        """Falling off the end of the function: the state it hands back."""
        fn = env.fn
        names = [n for n, _ in fn.mut] + [n for n, _ in fn.params if n in fn.mut_params]
        if fn.gen is not None:
            names.append("yield_")
        elif fn.ret is not None:
            raise Unsupported(ast.Pass(), f"{fn.name} may fall off its end but returns a value elsewhere")
        texts = []
        for n in names:
            texts.append(self.coerce(sv(n), env.types[n], env.declared.get(n, env.types[n]), env, ast.Pass()))
        return wrap(env.take(), f"Val {tup(texts)}")

    def block(self, stmts, env: Env, k) -> str:
        """Translate statements; k(env) gives the text for what follows (None: end of function)."""
        if not stmts:
            return k(env) if k else self.finish(env)
        s, rest = stmts[0], list(stmts[1:])

        def cont(env2):
            return self.block(rest, env2, k)

        if isinstance(s, ast.Expr) and isinstance(s.value, ast.Constant) and isinstance(s.value.value, str):
            return cont(env)
        if isinstance(s, (ast.Pass, ast.ImportFrom)):
            if isinstance(s, ast.ImportFrom) and ast.unparse(s) not in (
                    "from .compile import tensor_cdefs", "from ._exceptions import InvalidModeOrderingError"):
                raise Unsupported(s, "import")
            return cont(env)
        if isinstance(s, ast.FunctionDef):
            self.nested(s, env)
            return cont(env)
        if isinstance(s, ast.Return):
            if rest:
                raise Unsupported(s, "code after return")
            fn = env.fn
            if fn.gen is not None or s.value is None or fn.mut or fn.mut_params:
                raise Unsupported(s, "return shape")
            t, ty = self.expr(s.value, env, want=fn.ret)
            if isinstance(fn.ret, tuple) and fn.ret[0] == "prod" and isinstance(ty, tuple) and ty[0] == "prod" \
                    and isinstance(s.value, ast.Tuple):
                parts = [self.expr(x, env) for x in s.value.elts]
                t = "(" + ", ".join(self.coerce(a, at, rt, env, s) for (a, at), rt in zip(parts, fn.ret[1])) + ")"
            else:
                t = self.coerce(t, ty, fn.ret, env, s)
            return wrap(env.take(), f"Val {t}")
        if isinstance(s, ast.Raise):
            env.take()
            return "Exc"
        if isinstance(s, ast.Assign) and len(s.targets) == 1 and ast.unparse(s.targets[0]) == "self.cffi_tensor" \
                and not rest and env.fn.name == "__setstate__":
            # the object is (re)initialised with this structure: the result of the method
            return self.block([ast.copy_location(ast.Return(value=s.value), s)], env, k)
        if isinstance(s, ast.Assign) and len(s.targets) == 1:
            return self.assign(s.targets[0], s.value, env, cont, s)
        if isinstance(s, ast.AugAssign):
            if not isinstance(s.target, ast.Name):
                raise Unsupported(s, "augmented assignment to a non-name")
            ty = env.types.get(s.target.id)
            if ty is None or (isinstance(ty, tuple) and ty[0] in ("list", "dict", "carr")):
                raise Unsupported(s, "augmented assignment on a mutable / unbound value")
            t, tt = self.binop(s.target, s.op, s.value, env, s)
            return self.set_name(s.target.id, t, tt, env, cont, s)
        if isinstance(s, ast.Expr):
            return self.expr_stmt(s, env, cont)
        if isinstance(s, ast.If):
            return self.if_stmt(s, rest, env, k)
        if isinstance(s, ast.For):
            return self.for_stmt(s, env, cont)
        raise Unsupported(s, "statement")

    def set_name(self, name, t, tt, env: Env, cont, node) -> str:
        if name in ("fuel", "yield_") or name in [n for n, _ in env.fn.ro]:
            raise Unsupported(node, f"assignment to {name} (captured read-only / reserved)")
        if name in env.declared:
            t = self.coerce(t, tt, env.declared[name], env, node)
            tt = env.declared[name]
        elif name in env.types and env.types[name] != tt:
            tt2 = self.join(env.types[name], tt, node)
            t, tt = self.coerce(t, tt, tt2, env, node), tt2
        if isinstance(tt, tuple) and None in tt:
            raise Unsupported(node, f"type of {name} is not determined")
        env.binds.append((sv(name), t, "let"))
        env.types[name] = tt
        binds = env.take()
        return wrap(binds, cont(env))

    def assign(self, tgt, value, env: Env, cont, node) -> str:
        if isinstance(tgt, ast.Name):
            name = tgt.id
            decl = LOCALS.get(env.fn.name.split(".")[0] if False else env.fn.name, {}).get(name)
            if decl is not None and name not in env.types:
                env.declared[name] = decl
            if isinstance(value, ast.Call) and isinstance(value.func, ast.Name) and value.func.id == "allocate_taco_structure":
                # cffi_tensor = allocate_taco_structure(...): run the checks; the only attribute read later
                # is .order, which allocate_taco_structure sets to len(mode_types) (verified in the source)
                text, args = self.call_fn(self.fns["allocate_taco_structure"], value, env, stmt=True)
                mt, mtt = self.expr(args["mode_types"], env)
                env.binds.append(("_", text, "bind"))
                env.types[name] = "cffi"
                env.types[name + ".order"] = (f"(Z.of_nat (List.length {mt}))", Z)
                return wrap(env.take(), cont(env))
            t, tt = self.expr(value, env, want=env.declared.get(name))
            return self.set_name(name, t, tt, env, cont, node)
        if isinstance(tgt, ast.Tuple) and all(isinstance(x, ast.Name) for x in tgt.elts):
            t, tt = self.expr(value, env)
            if not (isinstance(tt, tuple) and tt[0] == "prod" and len(tt[1]) == len(tgt.elts)):
                raise Unsupported(node, "tuple assignment from a non-tuple")
            for x, xt in zip(tgt.elts, tt[1]):
                if x.id in env.types or x.id == "fuel":
                    raise Unsupported(node, "tuple assignment to an existing variable")
                env.types[x.id] = xt
            env.binds.append(("'(" + ", ".join(sv(x.id) for x in tgt.elts) + ")", t, "let"))
            return wrap(env.take(), cont(env))
        if isinstance(tgt, ast.Subscript):
            t, tt = self.expr(value, env)
            return self.write(tgt, t, tt, env, cont, node)
        raise Unsupported(node, "assignment target")

    def read_path(self, p, env: Env, memo: dict):
        key = ast.unparse(p)
        if key in memo:
            return memo[key]
        if isinstance(p, ast.Name):
            r = self.expr(p, env)
        elif isinstance(p, ast.Subscript) and not isinstance(p.slice, ast.Slice):
            c, ct = self.read_path(p.value, env, memo)
            if ct == TREE or (isinstance(ct, tuple) and ct[0] == "opt"):
                c, ct = self.coerce(c, ct, D(Z, TREE), env, p), D(Z, TREE)
            k, kt = self.expr(p.slice, env)
            if isinstance(ct, tuple) and ct[0] == "dict":
                self.need(kt, ct[1], p)
                r = env.bind(f"(of_opt (dict_get {eqb_of(kt, p)} {k} {c}))"), ct[2]
            elif isinstance(ct, tuple) and ct[0] == "list" and ct[1] is not None:
                self.need(kt, Z, p)
                r = env.bind(f"(r_getitem {c} {k})"), ct[1]
            else:
                raise Unsupported(p, f"path through a value of type {ct}")
            memo[key + "#c"] = (c, ct, k)
        else:
            raise Unsupported(p, "mutated path")
        memo[key] = r
        return r

    def write(self, p, t, tt, env: Env, cont, node, memo=None) -> str:
        """p = <new value t> for a name or a subscript path: the containers on the path are rebuilt
        (the heap of these functions is tree shaped: every container is made by a fresh display and
        stored in one place -- see design.d/TIE_tensorbuild.md)."""
        memo = {} if memo is None else memo
        if isinstance(p, ast.Name):
            if p.id not in env.types:
                raise Unsupported(node, "mutation of an unbound name")
            cur = env.declared.get(p.id, env.types[p.id])
            t = self.coerce(t, tt, cur if not (isinstance(cur, tuple) and None in cur) else tt, env, node)
            env.binds.append((sv(p.id), t, "let"))
            if isinstance(cur, tuple) and None in cur:
                env.types[p.id] = tt
            else:
                env.types[p.id] = cur
            return wrap(env.take(), cont(env))
        if isinstance(p, ast.Subscript) and not isinstance(p.slice, ast.Slice):
            key = ast.unparse(p)
            if key + "#c" in memo:
                c, ct, k = memo[key + "#c"]
            else:
                c, ct = self.read_path(p.value, env, memo)
                if ct == TREE or (isinstance(ct, tuple) and ct[0] == "opt"):
                    c, ct = self.coerce(c, ct, D(Z, TREE), env, p), D(Z, TREE)
                k, kt = self.expr(p.slice, env)
                self.need(kt, ct[1] if ct[0] == "dict" else Z, p)
            if ct[0] == "dict":
                v = self.coerce(t, tt, ct[2], env, node)
                new = f"(dict_set {eqb_of(ct[1], p)} {k} {v} {c})"
            elif ct[0] == "list":
                v = self.coerce(t, tt, ct[1], env, node)
                new = env.bind(f"(r_setitem {c} {k} {v})")
            else:
                raise Unsupported(node, f"item assignment on {ct}")
            return self.write(p.value, new, ct, env, cont, node, memo)
        raise Unsupported(node, "mutated path")

    def expr_stmt(self, s: ast.Expr, env: Env, cont) -> str:
        v = s.value
        if isinstance(v, ast.Yield):
            if env.fn.gen is None or v.value is None:
                raise Unsupported(s, "yield")
            t, tt = self.expr(v.value, env, want=env.fn.gen)
            t = self.coerce(t, tt, env.fn.gen, env, s)
            env.binds.append(("yield_", f"(yield_ ++ [{t}])", "let"))
            return wrap(env.take(), cont(env))
        if isinstance(v, ast.YieldFrom):
            if env.fn.gen is None:
                raise Unsupported(s, "yield from")
            t, tt = self.expr(v.value, env)
            self.need(tt, L(env.fn.gen), s)
            env.binds.append(("yield_", f"(yield_ ++ {t})", "let"))
            return wrap(env.take(), cont(env))
        if isinstance(v, ast.Call) and isinstance(v.func, ast.Attribute) and v.func.attr in ("append", "extend") \
                and len(v.args) == 1 and not v.keywords:
            memo = {}
            cur, ct = self.read_path(v.func.value, env, memo)
            if not (isinstance(ct, tuple) and ct[0] == "list"):
                raise Unsupported(s, f".{v.func.attr} on {ct}")
            a, at = self.expr(v.args[0], env, want=ct[1])
            if v.func.attr == "append":
                if ct[1] is None:
                    raise Unsupported(s, "append to a list of unknown type")
                a = self.coerce(a, at, ct[1], env, s)
                new = f"({cur} ++ [{a}])"
            else:
                a = self.coerce(a, at, ct, env, s)
                new = f"({cur} ++ {a})"
            return self.write(v.func.value, new, ct, env, cont, s, memo)
        if isinstance(v, ast.Call) and isinstance(v.func, ast.Name) and v.func.id in self.fns and v.func.id not in env.types:
            fn = self.fns[v.func.id]
            text, args = self.call_fn(fn, v, env, stmt=True)
            outs, writes = [], []
            for n, ty in fn.mut:
                outs.append(sv(n))
            for n, ty in fn.params:
                if n in fn.mut_params:
                    r = env.fresh("m")
                    outs.append(r)
                    writes.append((args[n], r, ty))
            rts = fn.result_types()
            if len(rts) > len(outs):
                outs.append("_")
            env.binds.append((pat(outs) if len(rts) > 1 else (outs[0] if outs else "_"), text, "bind"))

            def chain(i):
                def go(env2):
                    if i == len(writes):
                        return cont(env2)
                    a, r, ty = writes[i]
                    return self.write(a, r, ty, env2, chain(i + 1), s)
                return go
            binds = env.take()
            return wrap(binds, chain(0)(env))
        raise Unsupported(s, "expression statement")

    def narrowing(self, test, env: Env):
        """`NAME is None` / `NAME is not None` / `isinstance(NAME, Real)` on an optional / lol variable."""
        if isinstance(test, ast.Compare) and len(test.ops) == 1 and isinstance(test.left, ast.Name) \
                and isinstance(test.comparators[0], ast.Constant) and test.comparators[0].value is None \
                and isinstance(test.ops[0], (ast.Is, ast.IsNot)):
            n = test.left.id
            ty = env.types.get(n)
            if n in env.static_false:
                return ("static", isinstance(test.ops[0], ast.IsNot))
            if isinstance(ty, tuple) and ty[0] == "opt":
                return ("opt", n, ty[1], isinstance(test.ops[0], ast.IsNot))
        if isinstance(test, ast.Call) and isinstance(test.func, ast.Name) and test.func.id == "isinstance" \
                and len(test.args) == 2 and isinstance(test.args[0], ast.Name):
            n, cls = test.args[0].id, ast.unparse(test.args[1])
            if env.types.get(n) == LOL and cls == "Real":
                return ("lol", n)
            if env.types.get(n) == FORMAT and cls == "str" and n in env.static_false:
                return ("static", False)
        return None

    def if_stmt(self, s: ast.If, rest, env: Env, k) -> str:
        nar = self.narrowing(s.test, env)
        if nar and nar[0] == "static":
            return self.block((list(s.body) if nar[1] else list(s.orelse)) + rest, env, k)
        if nar is None:
            c, cty = self.expr(s.test, env)
            self.need(cty, B, s)
        pre = env.take()
        branches = [list(s.body), list(s.orelse)]
        if nar and nar[0] == "opt" and nar[3]:
            branches.reverse()  # `is not None`: the body is the Some branch
        envs = [env.copy(), env.copy()]
        if nar and nar[0] == "opt":
            envs[1].types[nar[1]] = nar[2]
        if nar and nar[0] == "lol":
            envs[0].types[nar[1]] = V
            envs[1].types[nar[1]] = L(LOL)

        def shape(a, b):
            if nar is None:
                return f"(if {c} then {a}\n  else {b})"
            n = sv(nar[1])
            if nar[0] == "opt":
                return f"(match {n} with None => {a}\n  | Some {n} => {b} end)"
            return f"(match {n} with LolNum {n} => {a}\n  | LolList {n} => {b} end)"

        term = [self.terminates(b) for b in branches]
        if all(term):
            if rest:
                raise Unsupported(s, "code after an if whose branches all return / raise")
            return wrap(pre, shape(*[self.block(b, e, None) for b, e in zip(branches, envs)]))
        if any(self.has_return(b) for b in branches):
            raise Unsupported(s, "return inside an if that may fall through")
        # variables handed on: assigned in a branch and (bound before, or assigned in every falling-through branch)
        ass = [self.assigned(b) for b in branches]
        names = []
        for n in ass[0] + ass[1]:
            if n in names:
                continue
            if n in env.types or all(n in a or t for a, t in zip(ass, term)):
                names.append(n)
        names.sort()  # in name order: the order of the statements does not change the shape of what is handed on
        if nar and nar[0] in ("opt", "lol") and nar[1] in names and nar[0] == "lol":
            raise Unsupported(s, "assignment to the variable tested by isinstance")
        out_types: dict = {}

        def leave(e2: Env):
            texts = []
            for n in names:
                if n not in e2.types:
                    raise Unsupported(s, f"{n} is not bound on every path")
                want = env.declared.get(n) or env.types.get(n) or out_types.get(n) or e2.types[n]
                if isinstance(want, tuple) and None in want:
                    want = e2.types[n]
                texts.append(self.coerce(sv(n), e2.types[n], want, e2, s))
                out_types[n] = self.join(out_types[n], want, s) if n in out_types else want
            return wrap(e2.take(), f"Val {tup(texts)}")

        texts = [self.block(b, e, leave) for b, e in zip(branches, envs)]
        for n in names:
            env.types[n] = out_types.get(n, env.types.get(n))
        body = shape(*texts)
        return wrap(pre + [(pat(sv(n) for n in names), body, "bind")], self.block(rest, env, k))

    def for_stmt(self, s: ast.For, env: Env, cont) -> str:
        if s.orelse:
            raise Unsupported(s, "for ... else")
        if self.has_return(s.body) or any(isinstance(n, (ast.Break, ast.Continue)) for x in s.body for n in ast.walk(x)):
            raise Unsupported(s, "return / break / continue inside a loop")
        zipped = None
        it = s.iter
        if isinstance(it, ast.Call) and isinstance(it.func, ast.Name) and it.func.id == "zip" and "zip" not in env.types:
            kws = {k.arg: ast.unparse(k.value) for k in it.keywords}
            if kws != {"strict": "True"} or len(it.args) != 2:
                raise Unsupported(s, "zip other than zip(a, b, strict=True)")
            (a, at), (b, bt) = self.expr(it.args[0], env), self.expr(it.args[1], env)
            for ty in (at, bt):
                if not (isinstance(ty, tuple) and ty[0] == "list" and ty[1] is not None):
                    raise Unsupported(s, "zip of a non-list")
            zipped, ety = (a, b), P(at[1], bt[1])
        else:
            src, ety = self.iter_source(it, env)
        pre = env.take()
        # in name order, so that the order of the statements in the body does not change the shape of the state
        state = sorted(n for n in self.assigned(s.body) if n in env.types)
        for n in state:
            if n in [x for x, _ in env.fn.ro]:
                raise Unsupported(s, f"captured variable {n} is changed")
        inner = env.copy()
        p = self.target(s.target, ety, inner, s)
        for n in self.target_names(s.target):
            if n in state:
                raise Unsupported(s, "loop variable is also loop state")

        def leave(e2: Env):
            texts = [self.coerce(sv(n), e2.types[n], env.declared.get(n, env.types[n]), e2, s) for n in state]
            return wrap(e2.take(), f"Val {tup(texts)}")

        body = self.block(list(s.body), inner, leave)
        st = tup(sv(n) for n in state)
        fun = f"(fun {pat(sv(n) for n in state)} {p} =>\n  {body})"
        loop = f"(rfold_zip_strict {fun} {zipped[0]} {zipped[1]} {st})" if zipped else f"(rfold {fun} {src} {st})"
        return wrap(pre + [(pat(sv(n) for n in state), loop, "bind")], cont(env))

    def target_names(self, t):
        if isinstance(t, ast.Name):
            return [t.id]
        return [n for x in t.elts for n in self.target_names(x)]

    # -------------------------------------------------------------------------------- functions
    def free_names(self, fn: ast.FunctionDef) -> list[str]:
        out = []
        for n in ast.walk(fn):
            if isinstance(n, ast.Name) and n.id not in out:
                out.append(n.id)
        return out

    def is_generator(self, fn: ast.FunctionDef) -> bool:
        for s in fn.body:
            for n in ast.walk(s):
                if isinstance(n, (ast.Yield, ast.YieldFrom)):
                    return True
        return False

    def calls_self(self, fn: ast.FunctionDef) -> bool:
        return any(isinstance(n, ast.Call) and isinstance(n.func, ast.Name) and n.func.id == fn.name for n in ast.walk(fn))

    def needs_fuel(self, fn: ast.FunctionDef) -> bool:
        for n in ast.walk(fn):
            if isinstance(n, ast.FunctionDef) and self.calls_self(n):
                return True
            if isinstance(n, ast.Call):
                nm = n.func.id if isinstance(n.func, ast.Name) else (
                    n.func.attr if isinstance(n.func, ast.Attribute) and ast.unparse(n.func.value) == "Tensor" else None)
                if nm in self.fns and self.fns[nm].fuel:
                    return True
        return False

    def params_of(self, qual: str, fn: ast.FunctionDef, skip_self=False):
        a = fn.args
        if a.vararg or a.kwarg or a.posonlyargs:
            raise Unsupported(fn, "parameter kinds")
        ps = list(a.args) + list(a.kwonlyargs)
        if skip_self:
            if not ps or ps[0].arg != "self":
                raise Unsupported(fn, "method without self")
            ps = ps[1:]
        table = PARAMS.get(qual)
        if table is None or [p.arg for p in ps] != list(table):
            raise Unsupported(fn, f"parameters of {qual} changed: {[p.arg for p in ps]} (typing table: {list(table or [])})")
        return [(p.arg, table[p.arg]) for p in ps]

    def emit(self, fn: Fn, body: str):
        ps = ([("fuel", "nat")] if fn.fuel else []) + [(sv(n), coq_ty(t)) for n, t in fn.ro + fn.mut + fn.params]
        rts = fn.result_types()
        ret = "unit" if not rts else " * ".join(coq_ty(t) for t in rts)
        sig = VPARAMS + " " + " ".join(f"({n} : {t})" for n, t in ps)
        if fn.recursive:
            self.out.append(f"Fixpoint {fn.coq} {sig} {{struct fuel}} : R ({ret}) :=\n  match fuel with O => NoFuel | S fuel =>\n  {body}\n  end.\n")
        else:
            self.out.append(f"Definition {fn.coq} {sig} : R ({ret}) :=\n  {body}.\n")

    def nested(self, node: ast.FunctionDef, env: Env):
        outer = env.fn
        qual = f"{outer.name}.{node.name}"
        if node.decorator_list or node.name in env.types or node.name in self.fns and not self.fns[node.name].name.endswith("." + node.name):
            raise Unsupported(node, "nested function shape")
        params = self.params_of(qual, node)
        pnames = [n for n, _ in params]
        own = self.assigned_plain(node.body)
        for n in own:
            if n in env.types and n not in pnames:
                raise Unsupported(node, f"nested function assigns {n}, which is also a variable of the enclosing function")
        tmp = Fn(qual, "", params, [], [], [], None, None, False, False)
        self.fns[node.name] = tmp  # so that `assigned` sees the recursive calls (fixpoint below)
        mutated = [n for n in self.assigned(node.body) if n not in own or n in pnames]
        used = self.free_names(node)
        mut = [(n, env.types[n]) for n in env.types if n in mutated and n not in pnames and n in used and isinstance(env.types[n], tuple)]
        mut_params = [n for n in pnames if n in mutated and n not in own]
        ro = [(n, env.types[n]) for n in env.types if n in used and n not in pnames and n not in own
              and n not in [m for m, _ in mut] and env.types[n] != "cffi" and isinstance(n, str) and "." not in n and "(" not in n]
        gen = None
        if self.is_generator(node):
            gen = outer.gen
            if gen is None:
                raise Unsupported(node, "nested generator in a non-generator")
        rec = self.calls_self(node)
        fn = Fn(qual, f"{outer.coq}__{node.name}", params, ro, mut, mut_params, None, gen, rec or self.needs_fuel(node), rec)
        self.fns[node.name] = fn
        e2 = Env(self, fn)
        for n, t in ro + mut + params:
            e2.types[n] = t
        for n, t in params:
            if n in mut_params:
                e2.declared[n] = t
        for n, t in mut:
            e2.declared[n] = t
        pre = ""
        if gen is not None:
            e2.types["yield_"] = L(gen)
            pre = f"let yield_ : {coq_ty(L(gen))} := [] in\n  "
        body = self.block(list(node.body), e2, None)
        self.emit(fn, pre + body)

    def assigned_plain(self, stmts) -> list[str]:
        """Names bound by plain assignment / loop targets (locals of a function)."""
        out = []
        for s in stmts:
            for n in ast.walk(s):
                if isinstance(n, ast.FunctionDef) and n is not s:
                    continue
                if isinstance(n, ast.Assign):
                    for t in n.targets:
                        out += [x for x in self.tnames_plain(t)]
                elif isinstance(n, ast.AugAssign) and isinstance(n.target, ast.Name):
                    out.append(n.target.id)
                elif isinstance(n, (ast.For, ast.comprehension)):
                    out += self.tnames_plain(n.target)
        return list(dict.fromkeys(out))

    def tnames_plain(self, t):
        if isinstance(t, ast.Name):
            return [t.id]
        if isinstance(t, (ast.Tuple, ast.List)):
            return [n for x in t.elts for n in self.tnames_plain(x)]
        return []

    def toplevel(self, node: ast.FunctionDef, name=None, method=False, static_false=(), inputs=False,
                 cut_at_boundary=False, ret=None, gen=None, items_input=None, selfobj=False, selfattr=None):
        name = name or node.name
        decos = [ast.unparse(d) for d in node.decorator_list]
        if decos not in ([], ["staticmethod"], ["property"]):
            raise Unsupported(node, "decorator")
        params = self.params_of(name, node, skip_self=method)
        body = list(node.body)
        ro = []
        self_keys: dict = {}
        if inputs:
            # prologue: values read from the C structure become inputs of the translated function
            # (also further down, as in taco_vals: the cast is pure)
            rest = []
            for s in body:
                src = ast.unparse(s)
                if src in INPUTS and INPUTS[src][0] not in [n for n, _ in ro]:
                    ro.append(INPUTS[src][:2])
                    self_keys[INPUTS[src][0]] = INPUTS[src][2]
                else:
                    rest.append(s)
            body = rest
        if selfobj:
            for n, t, key in SELF:
                ro.append((n, t))
                self_keys[n] = key
        for n, t in (selfattr or {}).values():
            ro.append((n, t))
        if items_input is not None:
            ro.append(("items_", items_input))
        if cut_at_boundary:
            keep = []
            for s in body:
                if any(w in ast.unparse(s) for w in BOUNDARY_WORDS):
                    break
                keep.append(s)
            tail = body[len(keep):]
            for s in tail:
                # after the boundary: only cffi plumbing and no further exception
                if any(isinstance(n, ast.Raise) for n in ast.walk(s)):
                    raise Unsupported(s, "a check after the cffi boundary")
            body = keep
        fn = Fn(name, name, ro + params if False else params, [], [], [], ret if ret is not None else RETS.get(name), gen, False, False)
        fn.ro = ro
        fn.self_keys = self_keys
        fn.fuel = self.needs_fuel(node) or (selfobj and "self.to_dok" in ast.unparse(node))
        self.fns[name] = fn
        a = node.args
        fn.defaults = {}
        for arg, d in list(zip(a.args[len(a.args) - len(a.defaults):], a.defaults)) + list(zip(a.kwonlyargs, a.kw_defaults)):
            if isinstance(d, ast.Constant) and isinstance(d.value, bool):
                fn.defaults[arg.arg] = d
        env = Env(self, fn)
        for n, t in ro + params:
            env.types[n] = t
        if items_input is not None:
            env.types["self.items()"] = items_input
        env.selfkeys = {key: n for n, key in self_keys.items()}
        env.selfattr = dict(selfattr or {})
        env.static_false = set(static_false)
        pre = ""
        if gen is not None:
            env.types["yield_"] = L(gen)
            pre = f"let yield_ : {coq_ty(L(gen))} := [] in\n  "
        if cut_at_boundary == "stored":
            def k(e2):
                names = [n for n, _ in params]
                return wrap(e2.take(), f"Val {tup(sv(n) for n in names)}")
            fn.ret = P(*[t for _, t in params])
            text = self.block(body, env, k)
        elif cut_at_boundary:
            fn.ret = None
            text = self.block(body, env, lambda e2: wrap(e2.take(), "Val tt"))
        else:
            text = self.block(body, env, None)
        self.emit(fn, pre + text)


def find_fn(tree, name, cls=None) -> ast.FunctionDef:
    body = tree.body
    if cls:
        for n in tree.body:
            if isinstance(n, ast.ClassDef) and n.name == cls:
                body = n.body
                break
        else:
            raise Unsupported(ast.Constant(cls), "class not found")
    for n in body:
        if isinstance(n, ast.FunctionDef) and n.name == name:
            return n
    raise Unsupported(ast.Constant(name), "function not found")


def gen_tensorbuild(src: Path) -> str:
    tsrc = (src / "tensora/tensor.py").read_text()
    csrc = (src / "tensora/compile/_cffi_ownership.py").read_text()
    fsrc = (src / "tensora/format/_format.py").read_text()
    T, Cm, Fm = ast.parse(tsrc), ast.parse(csrc), ast.parse(fsrc)
    tb = TB()
    # Mode: members and their (c_int, character) values
    members = parse_enum(Fm, "Mode")
    vals = []
    for n in Fm.body:
        if isinstance(n, ast.ClassDef) and n.name == "Mode":
            for item in n.body:
                if isinstance(item, ast.Assign):
                    v = item.value
                    if not (isinstance(v, ast.Tuple) and len(v.elts) == 2 and isinstance(v.elts[0], ast.Constant)
                            and type(v.elts[0].value) is int):
                        raise Unsupported(item, "Mode member value")
                    vals.append((item.targets[0].id, v.elts[0].value))
            init = [m for m in n.body if isinstance(m, ast.FunctionDef) and m.name == "__init__"]
            if not init or [a.arg for a in init[0].args.args] != ["self", "c_int", "character"] or \
                    "self.c_int = c_int" not in [ast.unparse(s) for s in init[0].body]:
                raise Unsupported(n, "Mode.__init__ shape")
    if [m for m, _ in vals] != members:
        raise Unsupported(ast.Constant("Mode"), "Mode members")
    tb.enum_attrs["Mode"] = vals
    # Format: a frozen dataclass with fields modes, ordering
    for n in Fm.body:
        if isinstance(n, ast.ClassDef) and n.name == "Format":
            flds = [(i.target.id, ast.unparse(i.annotation)) for i in n.body if isinstance(i, ast.AnnAssign)]
            if flds != [("modes", "tuple[Mode, ...]"), ("ordering", "tuple[int, ...]")]:
                raise Unsupported(n, "fields of Format")
            tb.format_fields = [("modes", L(MODE)), ("ordering", L(Z))]
    if not tb.format_fields:
        raise Unsupported(ast.Constant("Format"), "class not found")
    # the one attribute of the cffi structure read by the translated code
    alloc = find_fn(Cm, "allocate_taco_structure")
    if "cffi_tensor.order = len(mode_types)" not in [ast.unparse(s) for s in alloc.body]:
        raise Unsupported(alloc, "allocate_taco_structure no longer sets cffi_tensor.order = len(mode_types)")

    head = [
        f"(* GENERATED by /verif/tools/py2coq/extra_tensorbuild.py from src/tensora/tensor.py, "
        f"compile/_cffi_ownership.py, format/_format.py -- do not edit; regenerated on every check run. *)",
        "From Coq Require Import ZArith Bool List.",
        "From TV Require Import spec.PyBase spec.PyLib spec.Storage model.TensorBuildPy.",
        "Import ListNotations.",
        "Open Scope bool_scope.",
        "Open Scope Z_scope.",
        "",
        "Inductive Mode : Type :=" + "".join(f"\n  | Mode_{m}" for m in members) + ".",
        "Definition Mode_eqb (a b : Mode) : bool :=\n  match a, b with" + "".join(
            f"\n  | Mode_{m}, Mode_{m} => true" for m in members) + "\n  | _, _ => false\n  end.",
        "Definition Mode_c_int (m : Mode) : Z :=\n  match m with" + "".join(
            f"\n  | Mode_{m} => ({v})%Z" for m, v in vals) + "\n  end.",
        "Record Format : Type := mkFormat { Format_modes : list Mode; Format_ordering : list Z }.",
        "",
        "(* every function takes the number type of the values (Python float) and 0.0, +, == on it *)",
        "",
    ]
    tb.toplevel(find_fn(Cm, "weakly_increasing"))
    tb.toplevel(alloc, cut_at_boundary=True)
    tb.toplevel(find_fn(Cm, "taco_structure_to_cffi"), cut_at_boundary="stored")
    tb.toplevel(find_fn(T, "coordinates_to_tree"))
    tb.toplevel(find_fn(T, "tree_to_indices_and_values"))
    tb.toplevel(find_fn(T, "lol_to_coordinates_and_values"))
    spec = ("dimensions", "format")
    tb.toplevel(find_fn(T, "from_aos", "Tensor"), static_false=spec, ret=STORED)
    tb.toplevel(find_fn(T, "from_dok", "Tensor"), static_false=spec, ret=STORED)
    tb.toplevel(find_fn(T, "from_soa", "Tensor"), static_false=spec, ret=STORED)
    tb.toplevel(find_fn(T, "from_lol", "Tensor"), static_false=spec, ret=STORED)
    tb.toplevel(find_fn(T, "items", "Tensor"), method=True, inputs=True, gen=ITEM)
    tb.toplevel(find_fn(T, "to_dok", "Tensor"), method=True, items_input=L(ITEM))
    # Format(...) as a checked constructor: __post_init__, then the record
    tb.toplevel(find_fn(Fm, "__post_init__", "Format"), name="__post_init__", method=True,
                selfattr={"modes": ("modes", L(MODE)), "ordering": ("ordering", L(Z))})
    tb.out.append("Definition Format_new " + VPARAMS + " (modes : list Mode) (ordering : list Z) : R Format :=\n"
                  "  rbind (__post_init__ V Vzero Vadd Veqb modes ordering) (fun _ => Val (mkFormat modes ordering)).\n")
    fprop = find_fn(T, "format", "Tensor")
    if [ast.unparse(x) for x in fprop.body] != ["return Format(self.modes, self.mode_ordering)"]:
        raise Unsupported(fprop, "the property Tensor.format is no longer Format(self.modes, self.mode_ordering)")
    tb.format_property_ok = True
    tb.toplevel(find_fn(T, "taco_indices", "Tensor"), method=True, inputs=True)
    tb.toplevel(find_fn(T, "taco_vals", "Tensor"), method=True, inputs=True)
    tb.toplevel(find_fn(T, "__getstate__", "Tensor"), method=True, selfobj=True)
    tb.toplevel(find_fn(T, "__setstate__", "Tensor"), method=True, ret=STORED)
    tb.toplevel(find_fn(T, "to_format", "Tensor"), method=True, selfobj=True, static_false=("format",), ret=STORED)
    return "\n".join(head) + "\n" + "\n".join(tb.out)


def targets(src: Path) -> dict:
    return {"TensorBuildGen.v": lambda: gen_tensorbuild(src)}
