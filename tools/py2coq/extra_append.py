"""py2coq.extra_append: the output-writing IR emitters regenerated into Gallina (gen/AppendGen.v).

  ir/ast.py                         to_expression, Expression.plus/minus/times, Assignable.attr/idx/assign/
                                    increment, Variable.declare, Declaration.assign, Add.join, Multiply.join
                                    (only what the emitters below reach; translated on demand)
  kernel_type.py                    KernelType (members, is_assemble, is_compute)
  format/_format.py                 Mode (members)
  iteration_graph/identifiable_expression/ast.py       Tensor (fields, property order)
  iteration_graph/identifiable_expression/_tensor_layer.py   TensorLayer (fields, the name methods)
  iteration_graph/_write_sparse_ir.py      write_sparse_initialization, write_crd_assembly,
                                           write_pos_assembly, write_pos_allocation
  iteration_graph/outputs/_append.py       default_array_size (incl. the TENSORA_VERIF_INITIAL_CAPACITY hook),
                                           AppendOutput.vals_pointer / write_declarations / write_assignment /
                                           write_cleanup / next_output
  iteration_graph/outputs/_bucket.py       BucketOutput (__init__, name, loop_name, dimension_names,
                                           write_declarations, write_assignment, ravel_indexes, next_output)

The name functions of iteration_graph/_names.py are taken from gen/Names.v (TIE target "names").

The emitters are imperative: they fill a SourceBuilder.  The translation is a state-passing reading of
that: every local variable a block assigns is threaded through `let`s / folds; a builder is the value
[sb] (lines + comment of its bottom BlockBuilder); `with source.branch(c):` runs its body on a fresh
line list and appends the finished Branch to the outer one -- what ir/_builder.py does with its
stack for lexically balanced `with` blocks.  The text of ir/_builder.py is PINNED (hash of its AST): a
change of the builder makes the regeneration fail closed.  Functions that can raise (xs[i], raise,
zip(strict=True), calls of such functions) return `option` (None = some exception), effects are bound
left to right before the statement that contains them.

Everything else raises Unsupported: the generated file then does not compile.
"""

from __future__ import annotations

import ast
import hashlib
from dataclasses import dataclass
from pathlib import Path

from .core import PRELUDE, Unsupported, parse_classes
from .ir import build_universe

FILE = "AppendGen.v"

# sha256 of ast.dump(ast.parse(ir/_builder.py)): the reading of SourceBuilder in SUPPORT is by hand
BUILDER_PIN = "c5c411c3b562304c29724603b5bca1df061425dab1f54dfa134bb292c88c0886"

ENV_HOOK = "TENSORA_VERIF_INITIAL_CAPACITY"

RESERVED = {"left", "right", "at", "as", "in", "end", "fix", "fun", "if", "then", "else", "let", "match",
            "return", "with", "Type", "Set", "Prop", "using", "where", "forall", "exists", "cofix", "for",
            "mod", "type", "nil", "cons", "Some", "None", "true", "false", "pair", "fst", "snd", "tt", "map",
            "length", "Var", "Block", "Branch", "Loop", "Add", "Multiply"}

SUPPORT = r'''
(* ---------------------------------------------------------------------------------------------- *)
(* fixed support text of tools/py2coq/extra_append.py *)

(* SourceBuilder (ir/_builder.py, pinned): the lines and the comment of its bottom BlockBuilder.
   Inside `with b.branch(c):` / `with b.loop(c):` the variable holds the lines of the open frame. *)
Record sb : Type := MkSB { sb_lines : list stmt; sb_comment : option string }.

Definition sb_finalize (s : sb) : stmt := Block (sb_lines s) (sb_comment s).

(* append(statement): case Statement() *)
Definition sb_append_stmt (s : sb) (x : stmt) : sb := MkSB (sb_lines s ++ [x])%list (sb_comment s).

(* append(statement): case SourceBuilder(): a commented block is appended as a block, the lines of
   an uncommented one are spliced in *)
Definition sb_append_sb (s : sb) (x : sb) : sb :=
  match sb_comment x with
  | Some _ => MkSB (sb_lines s ++ [sb_finalize x])%list (sb_comment s)
  | None => MkSB (sb_lines s ++ sb_lines x)%list (sb_comment s)
  end.

(* BranchBuilder.finalize / LoopBuilder.finalize on the lines of the closed frame *)
Definition sb_close_branch (outer : sb) (c : expr) (inner : sb) : sb :=
  sb_append_stmt outer (Branch c (Block (sb_lines inner) None) (Block [] None)).
Definition sb_close_loop (outer : sb) (c : expr) (inner : sb) : sb :=
  sb_append_stmt outer (Loop c (Block (sb_lines inner) None)).

Definition py_range (a b : Z) : list Z := map (fun k => (a + Z.of_nat k)%Z) (seq 0 (Z.to_nat (b - a))).

(* xs[a:] *)
Definition py_slice_from {A} (xs : list A) (a : Z) : list A :=
  let n := Z.of_nat (List.length xs) in
  let a' := if (a <? 0)%Z then Z.max (n + a) 0 else a in
  skipn (Z.to_nat a') xs.

(* zip(a, b, strict=True): None = ValueError *)
Fixpoint py_zip_strict {A B} (a : list A) (b : list B) : option (list (A * B)) :=
  match a, b with
  | [], [] => Some []
  | x :: a', y :: b' => match py_zip_strict a' b' with Some r => Some ((x, y) :: r) | None => None end
  | _, _ => None
  end.

(* a value passed where the source accepts `Expression | bool | int | float | str` *)
Inductive exarg : Type := XE (e : expr) | XB (b : bool) | XZ (z : Z) | XF (f : F) | XS (s : string).
'''


class NeedMonad(Exception):
    pass


@dataclass(frozen=True)
class T:
    k: str
    a: tuple = ()

    def __str__(self):
        return coq_of(self)


Z, BOOL, STR, FL, TY, MODE, KT, SB, XARG, NONE, UNIT = (T("Z"), T("bool"), T("string"), T("F"), T("ty"), T("Mode"),
                                                  T("KernelType"), T("sb"), T("exarg"), T("none"), T("unit"))


def CLS(ind, cls):
    return T("cls", (ind, cls))


def REC(name):
    return T("rec", (name,))


def LIST(t):
    return T("list", (t,))


def OPT(t):
    return T("option", (t,))


def TUP(ts):
    return T("tuple", tuple(ts))


def coq_of(t: T) -> str:
    if t.k in ("Z", "bool", "string", "F", "ty", "Mode", "KernelType", "sb", "exarg", "unit"):
        return t.k
    if t.k == "cls":
        return t.a[0]
    if t.k == "rec":
        return t.a[0]
    if t.k == "list":
        return f"(list {coq_of(t.a[0])})"
    if t.k == "option":
        return f"(option {coq_of(t.a[0])})"
    if t.k == "tuple":
        return "(" + " * ".join(coq_of(x) for x in t.a) + ")"
    raise Unsupported(ast.Constant(str(t.k)), "no Coq type")


def cstr(s: str) -> str:
    return '"' + s.replace('"', '""') + '"%string'


def cname(n: str) -> str:
    return n + "_" if n in RESERVED else n


@dataclass
class Fn:
    key: tuple
    coq: str
    node: ast.FunctionDef
    owner: str | None  # class name for methods
    static: bool = False
    params: list = None  # [(name, T, default ast|None)]
    ret: T | None = None
    partial: bool = False
    uses_cap: bool = False
    done: bool = False
    busy: bool = False


class Gen:
    def __init__(self, src: Path):
        self.src = src
        t = src / "tensora"
        self.U = build_universe(src)
        self.irclasses = self.U.classes
        self.out: list[str] = []
        self.fns: dict[tuple, Fn] = {}
        self.tmp = 0
        # --- sources
        self.names_tree = ast.parse((t / "iteration_graph/_names.py").read_text())
        self.wsi_tree = ast.parse((t / "iteration_graph/_write_sparse_ir.py").read_text())
        self.append_tree = ast.parse((t / "iteration_graph/outputs/_append.py").read_text())
        self.bucket_tree = ast.parse((t / "iteration_graph/outputs/_bucket.py").read_text())
        self.kt_tree = ast.parse((t / "kernel_type.py").read_text())
        self.fmt_tree = ast.parse((t / "format/_format.py").read_text())
        self.ie_classes = parse_classes(ast.parse((t / "iteration_graph/identifiable_expression/ast.py").read_text()))
        self.tl_classes = parse_classes(
            ast.parse((t / "iteration_graph/identifiable_expression/_tensor_layer.py").read_text()))
        self.types_tree = ast.parse((t / "ir/types.py").read_text())
        self.irast_tree = ast.parse((t / "ir/ast.py").read_text())
        bt = (t / "ir/_builder.py").read_text()
        h = hashlib.sha256(ast.dump(ast.parse(bt)).encode()).hexdigest()
        self.builder_hash = h
        if h != BUILDER_PIN:
            raise Unsupported(ast.Constant("ir/_builder.py"),
                              f"ir/_builder.py changed (AST hash {h[:16]}..., pinned {BUILDER_PIN[:16]}...): the hand "
                              "reading of SourceBuilder in tools/py2coq/extra_append.py must be re-validated")
        # names are resolved by identifier: an import that renames something would be misread
        for tree, what in ((self.wsi_tree, "_write_sparse_ir.py"), (self.append_tree, "_append.py"),
                           (self.bucket_tree, "_bucket.py")):
            for node in ast.walk(tree):
                if isinstance(node, (ast.Import, ast.ImportFrom)):
                    for al in node.names:
                        if al.asname is not None and al.asname != al.name and (al.name, al.asname) not in (
                                ("ast", "ie_ast"), ("ast", "id"), ("ast", "ir"), ("os", "_os")):
                            raise Unsupported(node, f"import that renames a name in {what}")
                if isinstance(node, (ast.FunctionDef, ast.ClassDef)) and node.name in self.irclasses:
                    raise Unsupported(node, f"definition in {what} that shadows an IR class")
        # ir/types.py singletons: integer = Integer()
        self.ty_single = {}
        for node in self.types_tree.body:
            if isinstance(node, ast.Assign) and len(node.targets) == 1 and isinstance(node.targets[0], ast.Name) \
                    and isinstance(node.value, ast.Call) and isinstance(node.value.func, ast.Name) and not node.value.args:
                cls = node.value.func.id
                if cls in self.U.ctors and self.U.ctors[cls].ind == "ty":
                    self.ty_single[node.targets[0].id] = self.U.ctors[cls].coq
        self.records: dict[str, list[tuple[str, T]]] = {}
        self.rec_classes: dict[str, object] = {}
        self.enums: dict[str, list[str]] = {}

    # ------------------------------------------------------------------ helpers
    def fresh(self, base="t"):
        self.tmp += 1
        return f"{base}_{self.tmp}"

    def is_ir_class(self, n):
        return n in self.irclasses

    def ir_ind(self, cls):
        return self.U.root_of.get(cls)

    def find_method(self, cls: str, m: str):
        """MRO lookup in the IR class table (single inheritance chains)."""
        k = self.irclasses.get(cls)
        while k is not None:
            if m in k.methods:
                return k.name, k.methods[m]
            k = self.irclasses.get(k.bases[0]) if k.bases else None
        return None

    # ------------------------------------------------------------------ annotations
    def ann(self, a: ast.expr) -> T:
        if a is None:
            raise Unsupported(ast.Constant("?"), "missing annotation")
        if isinstance(a, ast.Constant) and isinstance(a.value, str):
            a = ast.parse(a.value, mode="eval").body
        if isinstance(a, ast.Constant) and a.value is None:
            return NONE
        if isinstance(a, ast.Attribute):
            n = a.attr
            if n in self.records:
                return REC(n)
            if n in self.irclasses and self.ir_ind(n) in ("expr", "stmt"):
                return CLS(self.ir_ind(n), n)
            raise Unsupported(a, "qualified type name")
        if isinstance(a, ast.Name):
            n = a.id
            prim = {"str": STR, "int": Z, "bool": BOOL, "float": FL, "Mode": MODE, "KernelType": KT,
                    "SourceBuilder": SB}
            if n in prim:
                return prim[n]
            if n in self.records:
                return REC(n)
            if n == "Type":
                return TY
            if n in self.irclasses and self.ir_ind(n) in ("expr", "stmt"):
                return CLS(self.ir_ind(n), n)
            raise Unsupported(a, "unknown type name")
        if isinstance(a, ast.Subscript) and isinstance(a.value, ast.Name):
            if a.value.id in ("list", "Sequence"):
                return LIST(self.ann(a.slice))
            if a.value.id == "set":
                return LIST(self.ann(a.slice))
            if a.value.id == "tuple":
                sl = a.slice
                if isinstance(sl, ast.Tuple) and len(sl.elts) == 2 and isinstance(sl.elts[1], ast.Constant) \
                        and sl.elts[1].value is Ellipsis:
                    return LIST(self.ann(sl.elts[0]))
                if isinstance(sl, ast.Tuple):
                    return TUP([self.ann(x) for x in sl.elts])
        if isinstance(a, ast.BinOp) and isinstance(a.op, ast.BitOr):
            parts = []

            def flat(x):
                if isinstance(x, ast.BinOp) and isinstance(x.op, ast.BitOr):
                    flat(x.left)
                    flat(x.right)
                else:
                    parts.append(x)

            flat(a)
            ts = [self.ann(p) for p in parts]
            if NONE in ts and len(ts) == 2:
                other = [x for x in ts if x != NONE][0]
                return OPT(other)
            if any(x.k == "cls" and x.a[0] == "expr" for x in ts) and all(
                    x in (Z, BOOL, STR, FL) or (x.k == "cls" and x.a[0] == "expr") for x in ts):
                return XARG
        raise Unsupported(a, "type annotation")

    # ------------------------------------------------------------------ coercions
    def join(self, a: T, b: T, node) -> T:
        if a == b:
            return a
        if a.k == "cls" and b.k == "cls" and a.a[0] == b.a[0]:
            ca, cb = a.a[1], b.a[1]
            if self.U.is_sub(ca, cb):
                return b
            if self.U.is_sub(cb, ca):
                return a
            return CLS(a.a[0], "Expression" if a.a[0] == "expr" else "Statement")
        if a.k == "list" and b.k == "list":
            return LIST(self.join(a.a[0], b.a[0], node))
        if a.k == "none" and b.k == "option":
            return b
        if b.k == "none" and a.k == "option":
            return a
        if a.k == "tuple" and b.k == "tuple" and len(a.a) == len(b.a):
            return TUP([self.join(x, y, node) for x, y in zip(a.a, b.a)])
        if a.k == "rec" and b.k == "rec" and {a.a[0], b.a[0]} <= {"AppendOutput", "BucketOutput", "Output"}:
            self.need_output_sum()
            return REC("Output")
        raise Unsupported(node, f"branches give a variable different types ({a} / {b})")

    def coerce(self, code: str, f: T, t: T, node) -> str:
        if f == t:
            return code
        if f.k == "cls" and t.k == "cls":
            if f.a[0] == t.a[0]:
                if self.U.is_sub(f.a[1], t.a[1]):
                    return code
                raise Unsupported(node, f"a {f.a[1]} where a {t.a[1]} is required (annotations are trusted; no downcast)")
            if f.a[0] == "expr" and t.a[0] == "stmt" and t.a[1] == "Statement":
                return f"(SExpr {code})"
        if t == XARG:
            if f.k == "cls" and f.a[0] == "expr":
                return f"(XE {code})"
            tag = {Z: "XZ", BOOL: "XB", STR: "XS", FL: "XF"}.get(f)
            if tag:
                return f"({tag} {code})"
        if f.k == "list" and t.k == "list":
            inner = self.coerce("x_", f.a[0], t.a[0], node)
            return code if inner == "x_" else f"(map (fun x_ => {inner}) {code})"
        if t.k == "option" and f.k == "none":
            return "None"
        if t.k == "option" and f.k != "option":
            return f"(Some {self.coerce(code, f, t.a[0], node)})"
        if t.k == "tuple" and f.k == "tuple" and len(t.a) == len(f.a):
            names = [f"c{i}_" for i in range(len(t.a))]
            parts = [self.coerce(n, a, b, node) for n, a, b in zip(names, f.a, t.a)]
            if parts == names:
                return code
            return f"(let '({', '.join(names)}) := {code} in ({', '.join(parts)}))"
        if f.k == "rec" and t == REC("Output") and f.a[0] in ("AppendOutput", "BucketOutput"):
            self.need_output_sum()
            return f"({'OutAppend' if f.a[0] == 'AppendOutput' else 'OutBucket'} {code})"
        raise Unsupported(node, f"cannot use a {f} as a {t}")

    def eqb(self, t: T, node) -> str:
        base = {Z: "Z.eqb", BOOL: "Bool.eqb", STR: "String.eqb", MODE: "Mode_eqb", KT: "KernelType_eqb", TY: "ty_eqb"}
        if t in base:
            return base[t]
        if t.k == "cls" and t.a[0] == "expr":
            return "expr_eqb"
        raise Unsupported(node, f"== on {t}")

    # ------------------------------------------------------------------ declarations of data
    def emit_enum(self, tree, cls, coqname):
        members = []
        methods = {}
        for node in tree.body:
            if isinstance(node, ast.ClassDef) and node.name == cls:
                for item in node.body:
                    if isinstance(item, ast.Assign) and len(item.targets) == 1 and isinstance(item.targets[0], ast.Name):
                        members.append(item.targets[0].id)
                    elif isinstance(item, ast.FunctionDef):
                        methods[item.name] = item
        if not members:
            raise Unsupported(ast.Constant(cls), "enum without members")
        self.enums[coqname] = members
        self.out.append(f"Inductive {coqname} : Type :=\n" + "\n".join(f"  | {coqname}_{m}" for m in members) + "\n.\n")
        self.out.append(f"Definition {coqname}_eqb (a b : {coqname}) : bool :=\n  match a, b with\n"
                        + "\n".join(f"  | {coqname}_{m}, {coqname}_{m} => true" for m in members)
                        + "\n  | _, _ => false\n  end.\n")
        return methods

    def emit_record(self, name: str, klass, extra_fields=None):
        flds = [(fn, self.ann(an)) for fn, an, _ in klass.fields]
        self.records[name] = flds
        self.rec_classes[name] = klass
        body = "; ".join(f"{name}_{fn} : {coq_of(t)}" for fn, t in flds)
        self.out.append(f"Record {name} : Type := Mk{name} {{ {body} }}.\n")

    _out_sum = False

    def need_output_sum(self):
        if not self._out_sum:
            raise Unsupported(ast.Constant("Output"), "the sum type Output is not declared yet")

    # ------------------------------------------------------------------ function table
    def register(self, key, coq, node, owner=None, static=False):
        self.fns[key] = Fn(key, coq, node, owner, static)

    def need(self, key, at) -> Fn:
        fn = self.fns.get(key)
        if fn is None:
            raise Unsupported(at, f"call of a function that is not in the translated set: {key}")
        if fn.done:
            return fn
        if fn.busy:
            raise Unsupported(at, "recursive function")
        fn.busy = True
        saved_tmp = self.tmp
        try:
            self.translate_fn(fn)
        finally:
            fn.busy = False
            self.tmp = saved_tmp
        fn.done = True
        return fn

    def self_type(self, fn: Fn) -> T:
        o = fn.owner
        if o in self.records:
            return REC(o)
        if o == "KernelType":
            return KT
        if o in self.irclasses:
            return CLS(self.ir_ind(o), o)
        raise Unsupported(fn.node, "method owner")

    def translate_fn(self, fn: Fn):
        node = fn.node
        a = node.args
        if a.vararg or a.kwarg or a.kwonlyargs or a.posonlyargs:
            raise Unsupported(node, "argument kinds")
        params = []
        defaults = [None] * (len(a.args) - len(a.defaults)) + list(a.defaults)
        for i, (arg, d) in enumerate(zip(a.args, defaults)):
            if i == 0 and fn.owner and not fn.static:
                if arg.arg != "self":
                    raise Unsupported(node, "first parameter of a method must be self")
                params.append(("self", self.self_type(fn), None))
            else:
                params.append((arg.arg, self.ann(arg.annotation), d))
        fn.params = params
        declared = self.ann(node.returns) if node.returns is not None else None
        last_err = None
        for monadic in (False, True):
            fb = FnBody(self, fn, monadic)
            try:
                code, rt = fb.run(declared)
            except NeedMonad:
                continue
            fn.partial = monadic
            fn.uses_cap = fb.uses_cap
            fn.ret = rt
            ps = "".join(f" ({cname(n)} : {coq_of(t)})" for n, t, _ in params)
            if fn.uses_cap:
                ps = " (initial_capacity : option Z)" + ps
            rts = coq_of(rt)
            if monadic:
                rts = f"(option {rts})"
            self.out.append(f"Definition {fn.coq}{ps} : {rts} :=\n{code}.\n")
            return
        raise Unsupported(node, "could not translate")


class FnBody:
    """Translation of one function body (state-passing, optionally in the option monad)."""

    def __init__(self, g: Gen, fn: Fn, monadic: bool):
        self.g = g
        self.fn = fn
        self.monadic = monadic
        self.pending: list[tuple[str, str]] = []
        self.uses_cap = False
        self.open_builders: list[str] = []
        self.ret_type: T | None = None
        self.declared: T | None = None

    # --------------------------------------------------------------- monad helpers
    def ret(self, code):
        return f"Some {code}" if self.monadic else code

    def partial_op(self, code: str, node) -> str:
        """`code` : option X; returns a variable bound to the X."""
        if not self.monadic:
            raise NeedMonad()
        v = self.g.fresh("t")
        self.pending.append((v, code))
        return v

    def take(self):
        p, self.pending = self.pending, []
        return p

    def wrap(self, p, body: str, ind: str) -> str:
        """wrap `body` in the binds `p` (in order)"""
        for v, code in reversed(p):
            body = f"obind {code} (fun {v} =>\n{ind}{body})"
        return body

    def flush(self, body: str, ind: str) -> str:
        return self.wrap(self.take(), body, ind)

    # --------------------------------------------------------------- entry
    def run(self, declared):
        self.declared = declared
        env = {n: t for n, t, _ in self.fn.params}
        body = [s for s in self.fn.node.body
                if not (isinstance(s, ast.Expr) and isinstance(s.value, ast.Constant))]
        code = self.block(body, env, None, "  ", tail=True)
        if self.ret_type is None:
            raise Unsupported(self.fn.node, "function without return")
        return "  " + code, self.ret_type

    # --------------------------------------------------------------- statements
    @staticmethod
    def assigned(stmts) -> list[str]:
        """local names a statement list may assign (in first-assignment order)"""
        out = []

        def add(n):
            if n not in out:
                out.append(n)

        def tgt(t):
            if isinstance(t, ast.Name):
                add(t.id)
            elif isinstance(t, (ast.Tuple, ast.List)):
                for e in t.elts:
                    tgt(e)

        def go(ss, loopvars):
            for s in ss:
                if isinstance(s, ast.Assign):
                    for t in s.targets:
                        tgt(t)
                elif isinstance(s, ast.AnnAssign):
                    tgt(s.target)
                elif isinstance(s, ast.AugAssign):
                    tgt(s.target)
                elif isinstance(s, ast.Expr) and isinstance(s.value, ast.Call) and isinstance(s.value.func, ast.Attribute) \
                        and s.value.func.attr in ("append", "extend") and isinstance(s.value.func.value, ast.Name):
                    add(s.value.func.value.id)
                elif isinstance(s, ast.If):
                    go(s.body, loopvars)
                    go(s.orelse, loopvars)
                elif isinstance(s, ast.For):
                    go(s.body, loopvars)
                elif isinstance(s, ast.With):
                    for it in s.items:
                        ce = it.context_expr
                        if isinstance(ce, ast.Call) and isinstance(ce.func, ast.Attribute) and isinstance(ce.func.value, ast.Name):
                            add(ce.func.value.id)
                    go(s.body, loopvars)

        go(stmts, set())
        return out

    @staticmethod
    def ends(stmts) -> bool:
        """the block never falls through"""
        if not stmts:
            return False
        s = stmts[-1]
        if isinstance(s, (ast.Return, ast.Raise)):
            return True
        if isinstance(s, ast.If) and s.orelse:
            return FnBody.ends(s.body) and FnBody.ends(s.orelse)
        return False

    def tuple_of(self, vars_, env):
        if not vars_:
            return "tt", UNIT
        if len(vars_) == 1:
            return cname(vars_[0]), env[vars_[0]]
        return "(" + ", ".join(cname(v) for v in vars_) + ")", TUP([env[v] for v in vars_])

    def pat_of(self, vars_):
        if not vars_:
            return "_"
        if len(vars_) == 1:
            return cname(vars_[0])
        return "'(" + ", ".join(cname(v) for v in vars_) + ")"

    def block(self, stmts, env, outvars, ind, tail=False, outtypes=None):
        """Code of the statement list.  Non-tail: the value is the tuple of `outvars` (coerced to
        `outtypes` when given).  Tail: the value is the function's result."""
        env = dict(env)
        if not stmts:
            if tail:
                raise Unsupported(self.fn.node, "function body falls off the end (returns None)")
            return self.finish(env, outvars, outtypes)
        s, rest = stmts[0], stmts[1:]
        ni = ind
        k = lambda e: self.block(rest, e, outvars, ni, tail, outtypes)  # noqa: E731

        if isinstance(s, ast.Pass):
            return k(env)
        if isinstance(s, ast.Return):
            if not tail or rest:
                raise Unsupported(s, "return that is not the last statement of the function / of a tail branch")
            if s.value is None:
                raise Unsupported(s, "bare return")
            code, t = self.ex(s.value, env)
            if self.declared is not None:
                want = self.declared
                code = self.g.coerce(code, t, want, s)
                t = want
            if self.ret_type is None:
                self.ret_type = t
            elif self.ret_type != t:
                j = self.g.join(self.ret_type, t, s)
                if j != self.ret_type:
                    raise Unsupported(s, f"return statements of different types ({self.ret_type} / {t}); annotate the function")
                code = self.g.coerce(code, t, j, s)
            return self.flush(self.ret(code), ind)
        if isinstance(s, ast.Raise):
            if not self.monadic:
                raise NeedMonad()
            self.pending = []
            return "None"
        if isinstance(s, (ast.Assign, ast.AnnAssign)):
            if isinstance(s, ast.Assign):
                if len(s.targets) != 1:
                    raise Unsupported(s, "chained assignment")
                target, value = s.targets[0], s.value
                want = None
            else:
                target, value = s.target, s.value
                want = self.g.ann(s.annotation)
                if value is None:
                    raise Unsupported(s, "annotation without value")
            if not isinstance(target, ast.Name):
                raise Unsupported(s, "assignment target")
            if target.id in self.open_builders:
                raise Unsupported(s, "assignment to a builder inside its own `with`")
            code, t = self.ex(value, env, want=want)
            if want is not None:
                code = self.g.coerce(code, t, want, s)
                t = want
            # a plain re-assignment may change the type (the `let` shadows); joins of branches and loop
            # accumulators are checked where they happen
            env[target.id] = t
            p = self.take()
            return self.wrap(p, f"let {cname(target.id)} := {code} in\n{ind}" + k(env), ind)
        if isinstance(s, ast.Expr):
            c = s.value
            if isinstance(c, ast.Call) and isinstance(c.func, ast.Attribute) and c.func.attr == "append" \
                    and isinstance(c.func.value, ast.Name) and len(c.args) == 1 and not c.keywords:
                recv = c.func.value.id
                if recv not in env:
                    raise Unsupported(s, "append to an unknown variable")
                rt = env[recv]
                acode, at = self.ex(c.args[0], env)
                if rt == SB:
                    if at == SB:
                        new = f"sb_append_sb {cname(recv)} {acode}"
                    elif at.k == "cls":
                        new = f"sb_append_stmt {cname(recv)} {self.g.coerce(acode, at, CLS('stmt', 'Statement'), s)}"
                    else:
                        raise Unsupported(s, f"SourceBuilder.append of a {at}")
                elif rt.k == "list":
                    if rt.a[0] == NONE:  # first append fixes the element type of an empty display
                        rt = LIST(at)
                        env[recv] = rt
                    j = self.g.join(rt.a[0], at, s)
                    if j != rt.a[0]:
                        raise Unsupported(s, f"list element type changes ({rt.a[0]} -> {at})")
                    new = f"({cname(recv)} ++ [{self.g.coerce(acode, at, rt.a[0], s)}])%list"
                else:
                    raise Unsupported(s, f".append on a {rt}")
                p = self.take()
                return self.wrap(p, f"let {cname(recv)} := {new} in\n{ind}" + k(env), ind)
            raise Unsupported(s, "expression statement")
        if isinstance(s, ast.With):
            if len(s.items) != 1 or s.items[0].optional_vars is not None:
                raise Unsupported(s, "with statement")
            ce = s.items[0].context_expr
            if not (isinstance(ce, ast.Call) and isinstance(ce.func, ast.Attribute) and isinstance(ce.func.value, ast.Name)
                    and ce.func.attr in ("branch", "loop") and len(ce.args) == 1 and not ce.keywords):
                raise Unsupported(s, "with statement (only `with <builder>.branch(c)` / `.loop(c)`)")
            b = ce.func.value.id
            if env.get(b) != SB:
                raise Unsupported(s, "with on something that is not a SourceBuilder")
            ccode, ct = self.ex(ce.args[0], env)
            ccode = self.g.coerce(ccode, ct, CLS("expr", "Expression"), s)
            outer = self.g.fresh(cname(b) + "_o")
            cond = self.g.fresh("c")
            self.no_tail_inside(s.body)
            self.open_builders.append(b)
            inner_vars = [v for v in self.assigned(s.body) if v in env or True]
            # the body is inlined: same scope as the surrounding block (Python has function scope)
            close = "sb_close_branch" if ce.func.attr == "branch" else "sb_close_loop"
            closer = _Closer(b, outer, cond, close)
            p = self.take()
            body_code = self.block(list(s.body) + [closer] + list(rest), env, outvars, ind, tail, outtypes)
            head = (f"let {cond} := {ccode} in\n{ind}let {outer} := {cname(b)} in\n{ind}"
                    f"let {cname(b)} := MkSB [] None in\n{ind}")
            return self.wrap(p, head + body_code, ind)
        if isinstance(s, _Closer):
            self.open_builders.remove(s.b)
            return f"let {cname(s.b)} := {s.close} {s.outer} {s.cond} {cname(s.b)} in\n{ind}" + k(env)
        if isinstance(s, ast.If):
            return self.if_stmt(s, rest, env, outvars, ind, tail, outtypes)
        if isinstance(s, ast.For):
            return self.for_stmt(s, rest, env, outvars, ind, tail, outtypes)
        raise Unsupported(s, "statement")

    def no_tail_inside(self, stmts):
        for n in stmts:
            for x in ast.walk(n):
                if isinstance(x, (ast.Return, ast.Break, ast.Continue)):
                    raise Unsupported(x, "return/break/continue inside a `with` block")

    def finish(self, env, outvars, outtypes):
        parts = []
        for i, v in enumerate(outvars):
            if v not in env:
                raise Unsupported(self.fn.node, f"variable {v} is not assigned on every path")
            c = cname(v)
            if outtypes is not None:
                c = self.g.coerce(c, env[v], outtypes[i], self.fn.node)
            parts.append(c)
        if not parts:
            return self.ret("tt")
        return self.ret(parts[0] if len(parts) == 1 else "(" + ", ".join(parts) + ")")

    def cond(self, test, env):
        """returns (code, narrowing) where narrowing = (var, T) when the test is `v is not None [and ...]`"""
        code, t = self.ex(test, env)
        if t != BOOL:
            raise Unsupported(test, f"condition of type {t} (truthiness is only translated for bool)")
        return code

    def must(self, stmts) -> set:
        """names definitely assigned when the statement list falls through"""
        out = set()
        for s in stmts:
            if isinstance(s, ast.Assign):
                for t in s.targets:
                    if isinstance(t, ast.Name):
                        out.add(t.id)
            elif isinstance(s, ast.AnnAssign) and isinstance(s.target, ast.Name) and s.value is not None:
                out.add(s.target.id)
            elif isinstance(s, ast.If):
                a = None if self.ends(s.body) else self.must(s.body)
                b = None if (s.orelse and self.ends(s.orelse)) else self.must(s.orelse)
                if a is None and b is None:
                    pass
                elif a is None:
                    out |= b
                elif b is None:
                    out |= a
                else:
                    out |= (a & b)
            elif isinstance(s, ast.With):
                out |= self.must(s.body)
        return out

    def if_stmt(self, s, rest, env, outvars, ind, tail, outtypes):
        i2 = ind + "  "
        # `if v is None: ... else: ...` / `if v is not None` on an option variable
        narrow = self.none_test(s.test, env)
        if tail and self.ends(s.body) and s.orelse and self.ends(s.orelse):
            if rest:
                raise Unsupported(rest[0], "unreachable statement")
            if narrow:
                v, positive = narrow
                env_some = dict(env)
                env_some[v] = env[v].a[0]
                env_none = dict(env)
                env_none[v] = NONE
                a = self.block(s.body if positive else s.orelse, env_some, None, i2, True)
                b = self.block(s.orelse if positive else s.body, env_none, None, i2, True)
                return f"match {cname(v)} with\n{ind}| Some {cname(v)} =>\n{i2}{a}\n{ind}| None =>\n{i2}{b}\n{ind}end"
            c = self.cond(s.test, env)
            p = self.take()
            a = self.block(s.body, env, None, i2, True)
            b = self.block(s.orelse, env, None, i2, True)
            return self.wrap(p, f"if {c}\n{ind}then\n{i2}{a}\n{ind}else\n{i2}{b}", ind)
        if narrow:
            raise Unsupported(s, "`is None` test outside a tail if/else")
        # a tail `if c: return ...` followed by more statements: the rest is the else branch
        if tail and self.ends(s.body) and not s.orelse:
            c = self.cond(s.test, env)
            p = self.take()
            a = self.block(s.body, env, None, i2, True)
            b = self.block(rest, env, outvars, i2, True, outtypes)
            return self.wrap(p, f"if {c}\n{ind}then\n{i2}{a}\n{ind}else\n{i2}{b}", ind)
        for n in list(s.body) + list(s.orelse):
            for x in ast.walk(n):
                if isinstance(x, ast.Return):
                    raise Unsupported(x, "return inside a branch that can fall through")
        c = self.cond(s.test, env)
        p = self.take()
        raises_t = self.ends(s.body)
        raises_f = self.ends(s.orelse) if s.orelse else False
        # variables visible afterwards: known before, or assigned on every falling-through path
        definitely = self.must([s])
        later = {x.id for n in rest for x in ast.walk(n) if isinstance(x, ast.Name)} | set(outvars or [])
        vs = [v for v in self.assigned([s]) if v in env or (v in definitely and v in later)]
        et = self.env_after(s.body, env)
        ef = self.env_after(s.orelse, env)
        types = []
        for v in vs:
            cands = []
            if not raises_t:
                cands.append(et[v])
            if not raises_f:
                cands.append(ef[v])
            if not cands:
                if v not in env:
                    raise Unsupported(s, f"no type for {v}")
                cands = [env[v]]
            t = cands[0]
            for c2 in cands[1:]:
                t = self.g.join(t, c2, s)
            types.append(t)
        a = self.block(s.body, env, vs, i2, False, types)
        b = self.block(s.orelse, env, vs, i2, False, types)
        env2 = dict(env)
        for v, t in zip(vs, types):
            env2[v] = t
        if not vs and not self.monadic:
            return self.block(rest, env2, outvars, ind, tail, outtypes)
        ite = f"(if {c}\n{ind}then\n{i2}{a}\n{ind}else\n{i2}{b})"
        kcode = self.block(rest, env2, outvars, ind, tail, outtypes)
        if self.monadic:
            return self.wrap(p, f"obind {ite} (fun {self.pat_of(vs)} =>\n{ind}{kcode})", ind)
        return self.wrap(p, f"let {self.pat_of(vs)} := {ite} in\n{ind}{kcode}", ind)

    def env_after(self, stmts, env):
        """types of the variables after a block (dry run; its code is discarded)"""
        if self.ends(stmts):
            return dict(env)
        probe = _Probe()
        saved_tmp, saved_open = self.g.tmp, list(self.open_builders)
        saved_ret = self.ret_type
        try:
            self.block(list(stmts) + [probe], env, [], "", False)
        except _ProbeDone as d:
            return d.env
        finally:
            self.g.tmp = saved_tmp
            self.open_builders = saved_open
            self.pending = []
            self.ret_type = saved_ret
        raise Unsupported(self.fn.node, "internal: probe not reached")

    def none_test(self, test, env):
        if isinstance(test, ast.Compare) and len(test.ops) == 1 and isinstance(test.left, ast.Name) \
                and isinstance(test.comparators[0], ast.Constant) and test.comparators[0].value is None \
                and isinstance(test.ops[0], (ast.Is, ast.IsNot)):
            v = test.left.id
            if v in env and env[v].k == "option":
                return v, isinstance(test.ops[0], ast.IsNot)
            raise Unsupported(test, "`is None` on something that is not an optional variable")
        return None

    def for_stmt(self, s, rest, env, outvars, ind, tail, outtypes):
        if s.orelse:
            raise Unsupported(s, "for/else")
        i2 = ind + "  "
        env = dict(env)
        it_code, it_t = self.iterable(s.iter, env)
        p = self.take()
        elt = it_t.a[0]
        env_b = dict(env)
        if isinstance(s.target, ast.Name):
            pat = cname(s.target.id)
            env_b[s.target.id] = elt
            loopnames = [s.target.id]
        elif isinstance(s.target, ast.Tuple) and all(isinstance(e, ast.Name) for e in s.target.elts) \
                and elt.k == "tuple" and len(elt.a) == len(s.target.elts):
            pat = "'(" + ", ".join(cname(e.id) for e in s.target.elts) + ")"
            loopnames = [e.id for e in s.target.elts]
            for e, t in zip(s.target.elts, elt.a):
                env_b[e.id] = t
        else:
            raise Unsupported(s, "loop target")
        for n in s.body:
            for x in ast.walk(n):
                if isinstance(x, (ast.Return, ast.Continue)):
                    raise Unsupported(x, "return/continue inside a loop")
        acc = [v for v in self.assigned(s.body) if v in env and v not in loopnames]
        for v in loopnames:
            if v in self.assigned(s.body):
                raise Unsupported(s, "loop variable assigned in the body")
        has_break = any(isinstance(x, ast.Break) for n in s.body for x in ast.walk(n))
        # an empty list display gets its element type from the first append in the body
        if any(env[v] == LIST(NONE) for v in acc):
            stripped = [n for n in s.body if not self._is_break_if(n)]
            after = self.env_after(stripped, env_b)
            for v in acc:
                if env[v] == LIST(NONE):
                    env[v] = after[v]
                    env_b[v] = after[v]
        types = [env[v] for v in acc]
        if has_break:
            body = self.break_body(s.body, env_b, acc, i2, types)
            accpat = "'(" + ", ".join([cname(v) for v in acc] + ["broken_"]) + ")"
            init = "(" + ", ".join([cname(v) for v in acc] + ["false"]) + ")"
            keep = self.ret("(" + ", ".join([cname(v) for v in acc] + ["true"]) + ")")
            fbody = f"if broken_ then {keep} else\n{i2}{body}"
            respat = "'(" + ", ".join([cname(v) for v in acc] + ["_"]) + ")"
        else:
            body = self.block(s.body, env_b, acc, i2, False, types)
            accpat = self.pat_of(acc)
            init, _ = self.tuple_of(acc, env)
            fbody = body
            respat = self.pat_of(acc)
        # the loop variables are not visible after the loop (Python keeps them; a use is refused)
        env2 = {v: t for v, t in env.items() if v not in loopnames}
        kcode = self.block(rest, env2, outvars, ind, tail, outtypes)
        acc_t = [coq_of(t) for t in types] + (["bool"] if has_break else [])
        acc_ty = " * ".join(acc_t) if acc_t else "unit"
        def binder(pattern, name, ty):
            if pattern.startswith("'"):
                return f"({name} : {ty})", f"let {pattern} := {name} in "
            if pattern == "_":
                return f"(_ : {ty})", ""
            return f"({pattern} : {ty})", ""
        b1, l1 = binder(accpat, "acc_", acc_ty)
        b2, l2 = binder(pat, "it_", coq_of(elt))
        lam = f"(fun {b1} {b2} => {l1}{l2}\n{i2}{fbody})"
        if self.monadic:
            loop = f"ofold {lam} {it_code} {init}"
            return self.wrap(p, f"obind ({loop}) (fun {respat} =>\n{ind}{kcode})", ind)
        loop = f"fold_left {lam} {it_code} {init}"
        return self.wrap(p, f"let {respat} := {loop} in\n{ind}{kcode}", ind)

    @staticmethod
    def _is_break_if(n):
        return isinstance(n, ast.If) and len(n.body) == 1 and isinstance(n.body[0], ast.Break) and not n.orelse

    def break_body(self, stmts, env, acc, ind, types):
        """loop body with `if c: break` statements at its top level"""
        env = dict(env)
        if not stmts:
            parts = [self.g.coerce(cname(v), env[v], t, self.fn.node) for v, t in zip(acc, types)] + ["false"]
            return self.ret("(" + ", ".join(parts) + ")")
        s, rest = stmts[0], stmts[1:]
        if isinstance(s, ast.If) and len(s.body) == 1 and isinstance(s.body[0], ast.Break) and not s.orelse:
            c = self.cond(s.test, env)
            p = self.take()
            parts = [self.g.coerce(cname(v), env[v], t, s) for v, t in zip(acc, types)] + ["true"]
            stop = self.ret("(" + ", ".join(parts) + ")")
            restc = self.break_body(rest, env, acc, ind + "  ", types)
            return self.wrap(p, f"if {c} then {stop} else\n{ind}{restc}", ind)
        for x in ast.walk(s):
            if isinstance(x, ast.Break):
                raise Unsupported(x, "break that is not `if c: break` at the top of the loop body")
        marker = _BreakRest(rest, acc, types)
        return self.block([s, marker], env, None, ind, False)

    def iterable(self, node, env):
        """(code, list type) of something iterated over; effects are bound before the loop"""
        if isinstance(node, ast.Call) and isinstance(node.func, ast.Name):
            f = node.func.id
            if f == "enumerate" and len(node.args) == 1 and not node.keywords:
                c, t = self.iterable(node.args[0], env)
                return f"(py_enumerate {c})", LIST(TUP([Z, t.a[0]]))
            if f == "reversed" and len(node.args) == 1 and not node.keywords:
                c, t = self.iterable(node.args[0], env)
                return f"(rev {c})", t
            if f == "range" and not node.keywords and len(node.args) in (1, 2):
                args = [self.ex(a, env) for a in node.args]
                for (_, t), a in zip(args, node.args):
                    if t != Z:
                        raise Unsupported(a, "range of a non-int")
                if len(args) == 1:
                    return f"(py_range 0 {args[0][0]})", LIST(Z)
                return f"(py_range {args[0][0]} {args[1][0]})", LIST(Z)
            if f == "zip":
                kw = {k.arg: k.value for k in node.keywords}
                if set(kw) != {"strict"} or not (isinstance(kw["strict"], ast.Constant) and kw["strict"].value is True) \
                        or len(node.args) != 2:
                    raise Unsupported(node, "zip (only zip(a, b, strict=True))")
                (a, ta), (b, tb) = self.iterable(node.args[0], env), self.iterable(node.args[1], env)
                v = self.partial_op(f"(py_zip_strict {a} {b})", node)
                return v, LIST(TUP([ta.a[0], tb.a[0]]))
            if f == "list" and len(node.args) == 1 and not node.keywords:
                return self.iterable(node.args[0], env)
        c, t = self.ex(node, env)
        if t.k != "list":
            raise Unsupported(node, f"iteration over a {t}")
        return c, t

    # --------------------------------------------------------------- expressions
    def ex(self, node, env, want=None):
        g = self.g
        if isinstance(node, ast.Constant):
            v = node.value
            if isinstance(v, bool):
                return ("true" if v else "false"), BOOL
            if isinstance(v, int):
                return f"({v})%Z", Z
            if isinstance(v, str):
                return cstr(v), STR
            if v is None:
                return "None", NONE
            raise Unsupported(node, "constant")
        if isinstance(node, ast.Name):
            n = node.id
            if n in self.open_builders:
                raise Unsupported(node, "a builder used as a value inside its own `with`")
            if n in env:
                return cname(n), env[n]
            if n == "default_array_size" and g.has_default_array_size:
                self.uses_cap = True
                return "(default_array_size initial_capacity)", CLS("expr", "Expression")
            raise Unsupported(node, "unknown variable (or not assigned on every path)")
        if isinstance(node, ast.Attribute):
            return self.attribute(node, env)
        if isinstance(node, ast.Call):
            return self.call(node, env)
        if isinstance(node, ast.JoinedStr):
            parts = []
            for p in node.values:
                if isinstance(p, ast.Constant) and isinstance(p.value, str):
                    if p.value:
                        parts.append(cstr(p.value))
                elif isinstance(p, ast.FormattedValue) and p.conversion == -1 and p.format_spec is None:
                    c, t = self.ex(p.value, env)
                    if t == STR:
                        parts.append(c)
                    elif t == Z:
                        parts.append(f"(show_Z {c})")
                    else:
                        raise Unsupported(p, f"formatting of a {t}")
                else:
                    raise Unsupported(p, "f-string piece")
            if not parts:
                return cstr(""), STR
            return "(" + " ++ ".join(parts) + ")%string", STR
        if isinstance(node, ast.Compare):
            if len(node.ops) != 1:
                raise Unsupported(node, "chained comparison")
            op = node.ops[0]
            a, ta = self.ex(node.left, env)
            b, tb = self.ex(node.comparators[0], env)
            if isinstance(op, (ast.Eq, ast.NotEq)):
                t = g.join(ta, tb, node)
                e = f"({g.eqb(t, node)} {g.coerce(a, ta, t, node)} {g.coerce(b, tb, t, node)})"
                return (e if isinstance(op, ast.Eq) else f"(negb {e})"), BOOL
            if ta == Z and tb == Z:
                fn = {ast.Lt: "Z.ltb", ast.LtE: "Z.leb", ast.Gt: "Z.gtb", ast.GtE: "Z.geb"}.get(type(op))
                if fn:
                    return f"({fn} {a} {b})", BOOL
            raise Unsupported(node, "comparison")
        if isinstance(node, ast.BoolOp):
            saved = self.pending
            self.pending = []
            is_and = isinstance(node.op, ast.And)

            def conj(values, env_):
                if not values:
                    return None
                v = values[0]
                nt = self.none_test(v, env_) if is_and else None
                if nt and nt[1]:
                    env2 = dict(env_)
                    env2[nt[0]] = env_[nt[0]].a[0]
                    r = conj(values[1:], env2)
                    return f"match {cname(nt[0])} with Some {cname(nt[0])} => {r or 'true'} | None => false end"
                c, t = self.ex(v, env_)
                if t != BOOL:
                    raise Unsupported(v, "and/or on non-bool values")
                r = conj(values[1:], env_)
                if r is None:
                    return c
                return f"({c} {'&&' if is_and else '||'} {r})"

            code = conj(list(node.values), env)
            if self.pending:
                raise Unsupported(node, "an operation that can raise under and/or")
            self.pending = saved
            return f"({code})", BOOL
        if isinstance(node, ast.UnaryOp):
            if isinstance(node.op, ast.Not):
                c, t = self.ex(node.operand, env)
                if t != BOOL:
                    raise Unsupported(node, "not on a non-bool value")
                return f"(negb {c})", BOOL
            if isinstance(node.op, ast.USub) and isinstance(node.operand, ast.Constant) and isinstance(node.operand.value, int):
                return f"(-{node.operand.value})%Z", Z
            raise Unsupported(node, "unary operator")
        if isinstance(node, ast.BinOp):
            a, ta = self.ex(node.left, env)
            b, tb = self.ex(node.right, env)
            if ta == Z and tb == Z:
                op = {ast.Add: "+", ast.Sub: "-", ast.Mult: "*"}.get(type(node.op))
                if op:
                    return f"({a} {op} {b})%Z", Z
            if ta == STR and tb == STR and isinstance(node.op, ast.Add):
                return f"({a} ++ {b})%string", STR
            if ta.k == "list" and tb.k == "list" and isinstance(node.op, ast.Add):
                t = g.join(ta, tb, node)
                return f"({g.coerce(a, ta, t, node)} ++ {g.coerce(b, tb, t, node)})%list", t
            if ta.k == "list" and tb.k == "list" and isinstance(node.op, ast.Sub) and ta == tb:
                # set difference on sets represented as duplicate-free lists
                return f"(set_diff {g.eqb(ta.a[0], node)} {a} {b})", ta
            raise Unsupported(node, "binary operator")
        if isinstance(node, ast.IfExp):
            c = self.cond(node.test, env)
            saved, self.pending = self.pending, []
            a, ta = self.ex(node.body, env)
            pa = self.take()
            b, tb = self.ex(node.orelse, env)
            pb = self.take()
            self.pending = saved
            t = g.join(ta, tb, node)
            a, b = g.coerce(a, ta, t, node), g.coerce(b, tb, t, node)
            if pa or pb:
                # only the chosen operand is evaluated: the conditional itself lives in the option monad
                ma = self.wrap(pa, f"Some {a}", "    ")
                mb = self.wrap(pb, f"Some {b}", "    ")
                return self.partial_op(f"(if {c} then {ma} else {mb})", node), t
            return f"(if {c} then {a} else {b})", t
        if isinstance(node, (ast.List, ast.Tuple)) and isinstance(node.ctx, ast.Load):
            if isinstance(node, ast.Tuple):
                parts = [self.ex(e, env) for e in node.elts]
                return "(" + ", ".join(c for c, _ in parts) + ")", TUP([t for _, t in parts])
            if not node.elts:
                if want is not None and want.k == "list":
                    return "[]", want
                return "[]", LIST(NONE)
            pieces = []
            et = None
            for e in node.elts:
                if isinstance(e, ast.Starred):
                    c, t = self.ex(e.value, env)
                    if t.k != "list":
                        raise Unsupported(e, "starred non-list")
                    pieces.append((c, t.a[0], True))
                else:
                    c, t = self.ex(e, env)
                    pieces.append((c, t, False))
                t1 = pieces[-1][1]
                if t1 != NONE:
                    et = t1 if et is None else g.join(et, t1, node)
            if want is not None and want.k == "list":
                et = want.a[0]
            segs = []
            for c, t, star in pieces:
                if star:
                    segs.append(g.coerce(c, LIST(t), LIST(et), node) if t != NONE else "[]")
                else:
                    segs.append("[" + g.coerce(c, t, et, node) + "]")
            return "(" + " ++ ".join(segs) + ")%list", LIST(et)
        if isinstance(node, (ast.ListComp, ast.GeneratorExp)):
            return self.comprehension(node, env)
        if isinstance(node, ast.Set) or isinstance(node, ast.SetComp):
            return self.set_expr(node, env)
        if isinstance(node, ast.Subscript):
            v, tv = self.ex(node.value, env)
            if tv.k != "list":
                raise Unsupported(node, f"subscript of a {tv}")
            if isinstance(node.slice, ast.Slice):
                sl = node.slice
                if sl.step is not None or sl.upper is not None or sl.lower is None:
                    raise Unsupported(node, "slice (only xs[a:])")
                a, ta = self.ex(sl.lower, env)
                if ta != Z:
                    raise Unsupported(node, "slice bound")
                return f"(py_slice_from {v} {a})", tv
            i, ti = self.ex(node.slice, env)
            if ti != Z:
                raise Unsupported(node, "index of non-int type")
            r = self.partial_op(f"(py_getitem {v} {i})", node)
            return r, tv.a[0]
        raise Unsupported(node, "expression")

    def set_expr(self, node, env):
        g = self.g
        if isinstance(node, ast.Set):
            parts = [self.ex(e, env) for e in node.elts]
            t = parts[0][1]
            return f"(set_display {g.eqb(t, node)} [" + "; ".join(c for c, _ in parts) + "])", LIST(t)
        if len(node.generators) != 1 or node.generators[0].is_async:
            raise Unsupported(node, "comprehension shape")
        gen = node.generators[0]
        if not isinstance(gen.target, ast.Name):
            raise Unsupported(node, "comprehension target")
        it, tl = self.iterable(gen.iter, env)
        env2 = dict(env)
        env2[gen.target.id] = tl.a[0]
        saved, self.pending = self.pending, []
        if not (isinstance(node.elt, ast.Name) and node.elt.id == gen.target.id):
            raise Unsupported(node, "set comprehension (only {x for x in xs if c})")
        conds = [self.cond(c, env2) for c in gen.ifs]
        if self.pending:
            # the condition may raise: a filter in the option monad
            if len(conds) != 1:
                raise Unsupported(node, "several conditions with effects")
            inner = self.flush(f"Some (if {conds[0]} then (acc_ ++ [{cname(gen.target.id)}])%list else acc_)", "  ")
            self.pending = saved
            r = self.partial_op(f"(ofold (fun acc_ {cname(gen.target.id)} => {inner}) {it} [])", node)
            return f"(set_of_list {g.eqb(tl.a[0], node)} {r})", tl
        self.pending = saved
        c = " && ".join(conds) if conds else "true"
        return f"(set_of_list {g.eqb(tl.a[0], node)} (filter (fun {cname(gen.target.id)} => {c}) {it}))", tl

    def comprehension(self, node, env):
        if len(node.generators) != 1 or node.generators[0].is_async:
            raise Unsupported(node, "comprehension shape")
        gen = node.generators[0]
        it, tl = self.iterable(gen.iter, env)
        env2 = dict(env)
        if isinstance(gen.target, ast.Name):
            pat = cname(gen.target.id)
            env2[gen.target.id] = tl.a[0]
        elif isinstance(gen.target, ast.Tuple) and all(isinstance(e, ast.Name) for e in gen.target.elts) \
                and tl.a[0].k == "tuple" and len(tl.a[0].a) == len(gen.target.elts):
            pat = "'(" + ", ".join(cname(e.id) for e in gen.target.elts) + ")"
            for e, t in zip(gen.target.elts, tl.a[0].a):
                env2[e.id] = t
        else:
            raise Unsupported(node, "comprehension target")
        saved, self.pending = self.pending, []
        conds = [self.cond(c, env2) for c in gen.ifs]
        if self.pending:
            raise Unsupported(node, "a comprehension condition that can raise")
        if conds:
            it = f"(filter (fun {pat} => {' && '.join(conds)}) {it})"
        e, te = self.ex(node.elt, env2)
        if self.pending:
            body = self.flush(f"Some {e}", "    ")
            self.pending = saved
            r = self.partial_op(f"(omap (fun {pat} => {body}) {it})", node)
            return r, LIST(te)
        self.pending = saved
        return f"(map (fun {pat} => {e}) {it})", LIST(te)

    def attribute(self, node, env):
        g = self.g
        # module-qualified constants
        if isinstance(node.value, ast.Name) and node.value.id not in env:
            m, a = node.value.id, node.attr
            if m == "types" and a in g.ty_single:
                return g.ty_single[a], TY
            if m == "Mode" and a in g.enums.get("Mode", []):
                return f"Mode_{a}", MODE
            if m == "KernelType" and a in g.enums.get("KernelType", []):
                return f"KernelType_{a}", KT
            raise Unsupported(node, "qualified name")
        v, t = self.ex(node.value, env)
        if t.k == "rec":
            for fn, ft in g.records.get(t.a[0], []):
                if fn == node.attr:
                    return f"({t.a[0]}_{fn} {v})", ft
            # a property
            key = ("rec", t.a[0], node.attr)
            if key in g.fns and g.fns[key].node.decorator_list:
                fn = g.need(key, node)
                return self.apply(fn, [v], node), fn.ret
            if t.a[0] == "Output" and node.attr == "output":
                return f"(Output_output {v})", REC("Tensor")
        if t == KT and node.attr == "name":
            raise Unsupported(node, "KernelType.name")
        raise Unsupported(node, f"attribute {node.attr} of a {t}")

    def apply(self, fn: Fn, args: list[str], node) -> str:
        if fn.uses_cap:
            self.uses_cap = True
            args = ["initial_capacity"] + args
        code = "(" + " ".join([fn.coq] + args) + ")" if args else fn.coq
        if fn.partial:
            return self.partial_op(code, node)
        return code

    def call_fn(self, fn: Fn, recv, node, env):
        """call of a translated function with the positional/keyword arguments of `node`"""
        params = list(fn.params)
        args = []
        if recv is not None:
            rc, rt = recv
            args.append(self.g.coerce(rc, rt, params[0][1], node))
            params = params[1:]
        kws = {k.arg: k.value for k in node.keywords}
        if None in kws:
            raise Unsupported(node, "**kwargs")
        if len(node.args) > len(params):
            raise Unsupported(node, "too many arguments")
        for i, (pn, pt, pd) in enumerate(params):
            if i < len(node.args):
                if isinstance(node.args[i], ast.Starred):
                    raise Unsupported(node, "*args")
                a = node.args[i]
            elif pn in kws:
                a = kws.pop(pn)
            elif pd is not None:
                a = pd
            else:
                raise Unsupported(node, f"missing argument {pn}")
            c, t = self.ex(a, env, want=pt)
            args.append(self.g.coerce(c, t, pt, node))
        if kws:
            raise Unsupported(node, "unknown keyword argument")
        return self.apply(fn, args, node), fn.ret

    def call(self, node, env):
        g = self.g
        f = node.func
        if isinstance(f, ast.Name):
            n = f.id
            if n in env:
                raise Unsupported(node, "call of a local value")
            if n == "SourceBuilder":
                if node.keywords or len(node.args) > 1:
                    raise Unsupported(node, "SourceBuilder arguments")
                if not node.args:
                    return "(MkSB [] None)", SB
                c, t = self.ex(node.args[0], env)
                if t != STR:
                    raise Unsupported(node, "SourceBuilder comment")
                return f"(MkSB [] (Some {c}))", SB
            if n == "len" and len(node.args) == 1 and not node.keywords:
                c, t = self.ex(node.args[0], env)
                if t.k != "list":
                    raise Unsupported(node, "len of a non-list")
                return f"(Z.of_nat (List.length {c}))", Z
            if n in ("range", "list", "reversed", "enumerate", "zip"):
                return self.iterable(node, env)
            if n in ("all", "any") and len(node.args) == 1 and not node.keywords \
                    and isinstance(node.args[0], ast.GeneratorExp):
                ge = node.args[0]
                if len(ge.generators) != 1 or ge.generators[0].ifs or not isinstance(ge.generators[0].target, ast.Name):
                    raise Unsupported(node, "all/any shape")
                it, tl = self.iterable(ge.generators[0].iter, env)
                env2 = dict(env)
                env2[ge.generators[0].target.id] = tl.a[0]
                saved, self.pending = self.pending, []
                c = self.cond(ge.elt, env2)
                if self.pending:
                    raise Unsupported(node, "all/any of something that can raise")
                self.pending = saved
                return f"({'forallb' if n == 'all' else 'existsb'} (fun {cname(ge.generators[0].target.id)} => {c}) {it})", BOOL
            if n == "reduce" and len(node.args) == 3 and not node.keywords and isinstance(node.args[0], ast.Name) \
                    and node.args[0].id in g.U.ctors and g.U.ctors[node.args[0].id].ind == "expr" \
                    and [ft for _, ft in g.U.ctors[node.args[0].id].fields] == ["expr", "expr"]:
                xs, tx = self.ex(node.args[1], env)
                i0, ti = self.ex(node.args[2], env)
                E = CLS("expr", "Expression")
                xs = g.coerce(xs, tx, LIST(E), node)
                i0 = g.coerce(i0, ti, E, node)
                return f"(fold_left {g.U.ctors[node.args[0].id].coq} {xs} {i0})", E
            if n == "replace" and len(node.args) == 1 and node.keywords:
                c, t = self.ex(node.args[0], env)
                if t.k != "rec" or t.a[0] not in g.records:
                    raise Unsupported(node, "dataclasses.replace of a non-record")
                kws = {k.arg: k.value for k in node.keywords}
                parts = []
                for fn_, ft in g.records[t.a[0]]:
                    if fn_ in kws:
                        cc, tt = self.ex(kws.pop(fn_), env, want=ft)
                        parts.append(g.coerce(cc, tt, ft, node))
                    else:
                        parts.append(f"({t.a[0]}_{fn_} {c})")
                if kws:
                    raise Unsupported(node, "replace of an unknown field")
                return f"(Mk{t.a[0]} " + " ".join(parts) + ")", t
            if n == "to_expression":
                fn = g.need(("ir", None, "to_expression"), node)
                return self.call_fn(fn, None, node, env)
            if ("names", n) in g.fns:
                fn = g.fns[("names", n)]
                return self.call_fn(fn, None, node, env)
            if ("fn", n) in g.fns:
                fn = g.need(("fn", n), node)
                return self.call_fn(fn, None, node, env)
            if n in g.records:
                key = ("rec", n, "__init__")
                if key in g.fns:
                    fn = g.need(key, node)
                    return self.call_fn(fn, None, node, env)
                flds = g.records[n]
                if node.keywords or len(node.args) != len(flds):
                    raise Unsupported(node, "record constructor arguments")
                parts = []
                for a, (fn_, ft) in zip(node.args, flds):
                    c, t = self.ex(a, env, want=ft)
                    parts.append(g.coerce(c, t, ft, node))
                return f"(Mk{n} " + " ".join(parts) + ")", REC(n)
            if n in g.U.ctors and g.U.ctors[n].ind in ("expr", "stmt"):
                return self.ir_ctor(n, node, env)
            raise Unsupported(node, "call of an unknown function")
        if isinstance(f, ast.Attribute):
            # types.Pointer(types.float)
            if isinstance(f.value, ast.Name) and f.value.id == "types" and f.value.id not in env:
                if f.attr in g.U.ctors and g.U.ctors[f.attr].ind == "ty":
                    return self.ir_ctor(f.attr, node, env)
            # static methods of IR classes: Multiply.join(...)
            if isinstance(f.value, ast.Name) and f.value.id not in env and f.value.id in g.irclasses:
                key = ("ir", f.value.id, f.attr)
                if key in g.fns and g.fns[key].static:
                    fn = g.need(key, node)
                    return self.call_fn(fn, None, node, env)
                raise Unsupported(node, "class attribute call")
            # ''.join(...)
            if f.attr == "join" and isinstance(f.value, ast.Constant) and isinstance(f.value.value, str) \
                    and len(node.args) == 1 and not node.keywords:
                c, t = self.ex(node.args[0], env)
                if t != LIST(STR):
                    raise Unsupported(node, "str.join of something that is not a list of str")
                return f"(py_join {cstr(f.value.value)} {c})", STR
            rc, rt = self.ex(f.value, env)
            if rt.k == "cls":
                found = g.find_method(rt.a[1], f.attr)
                if found is None:
                    raise Unsupported(node, f"{rt.a[1]} has no method {f.attr} (AttributeError)")
                owner, _ = found
                fn = g.need(("ir", owner, f.attr), node)
                return self.call_fn(fn, (rc, rt), node, env)
            if rt.k == "rec":
                key = ("rec", rt.a[0], f.attr)
                if key in g.fns:
                    fn = g.need(key, node)
                    return self.call_fn(fn, (rc, rt), node, env)
            if rt == KT:
                key = ("rec", "KernelType", f.attr)
                if key in g.fns:
                    fn = g.need(key, node)
                    return self.call_fn(fn, (rc, rt), node, env)
            raise Unsupported(node, f"method {f.attr} of a {rt}")
        raise Unsupported(node, "call")

    def ir_ctor(self, cls, node, env):
        g = self.g
        ct = g.U.ctors[cls]
        if node.keywords:
            raise Unsupported(node, "keyword arguments of an IR constructor")
        k = g.irclasses[cls]
        n_required = sum(1 for _, _, d in k.fields if d is None)
        if not (n_required <= len(node.args) <= len(ct.fields)):
            raise Unsupported(node, "constructor arity")
        parts = []
        for i, (fname, coqt) in enumerate(ct.fields):
            if i < len(node.args):
                want = self.field_type(coqt, k.fields[i][1])
                c, t = self.ex(node.args[i], env, want=want)
                parts.append(g.coerce(c, t, want, node))
            else:
                d = k.fields[i][2]
                if isinstance(d, ast.Constant) and d.value is None:
                    parts.append("None")
                else:
                    raise Unsupported(node, "default value")
        code = "(" + " ".join([ct.coq] + parts) + ")" if parts else ct.coq
        if ct.ind == "ty":
            return code, TY
        return code, CLS(ct.ind, cls)

    def field_type(self, coqt: str, ann) -> T:
        coqt = coqt.strip()
        simple = {"string": STR, "Z": Z, "bool": BOOL, "F": FL, "ty": TY}
        if coqt in simple:
            return simple[coqt]
        if coqt in ("expr", "stmt"):
            try:
                return self.g.ann(ann)
            except Unsupported:
                return CLS(coqt, "Expression" if coqt == "expr" else "Statement")
        if coqt.startswith("(list "):
            inner = coqt[6:-1]
            return LIST(self.field_type(inner, ast.Name(id="Statement" if inner == "stmt" else "Expression")))
        if coqt.startswith("(option "):
            return OPT(self.field_type(coqt[8:-1], None))
        raise Unsupported(ast.Constant(coqt), "field type")


class _Closer(ast.stmt):
    _fields = ()

    def __init__(self, b, outer, cond, close):
        super().__init__()
        self.b, self.outer, self.cond, self.close = b, outer, cond, close
        self.lineno = 0


class _Probe(ast.stmt):
    _fields = ()


class _ProbeDone(Exception):
    def __init__(self, env):
        self.env = env


class _BreakRest(ast.stmt):
    _fields = ()

    def __init__(self, rest, acc, types):
        super().__init__()
        self.rest, self.acc, self.types = rest, acc, types


# the two pseudo statements are handled by patching FnBody.block
_orig_block = FnBody.block


def _block(self, stmts, env, outvars, ind, tail=False, outtypes=None):
    if stmts and isinstance(stmts[0], _Probe):
        raise _ProbeDone(dict(env))
    if stmts and isinstance(stmts[0], _BreakRest):
        m = stmts[0]
        return self.break_body(m.rest, env, m.acc, ind, m.types)
    return _orig_block(self, stmts, env, outvars, ind, tail, outtypes)


FnBody.block = _block


# ------------------------------------------------------------------------------------------------
# driver
# ------------------------------------------------------------------------------------------------


def class_of(tree, name):
    for node in tree.body:
        if isinstance(node, ast.ClassDef) and node.name == name:
            return node
    raise Unsupported(ast.Constant(name), "class not found")


def functions_of(tree):
    return {n.name: n for n in tree.body if isinstance(n, ast.FunctionDef)}


def is_static(fn: ast.FunctionDef) -> bool:
    return any(isinstance(d, ast.Name) and d.id == "staticmethod" for d in fn.decorator_list)


def gen_default_array_size(g: Gen):
    """default_array_size = <expr>  followed by the verification hook
         if _os.environ.get("TENSORA_VERIF_INITIAL_CAPACITY"):
             default_array_size = IntegerLiteral(int(_os.environ["TENSORA_VERIF_INITIAL_CAPACITY"]))
       -> a function of the variable's value (None = unset or empty; Some c = its integer reading)."""
    first = None
    hook = None
    for node in g.append_tree.body:
        if isinstance(node, ast.Assign) and len(node.targets) == 1 and isinstance(node.targets[0], ast.Name) \
                and node.targets[0].id == "default_array_size":
            if first is not None:
                raise Unsupported(node, "second module-level assignment of default_array_size")
            first = node
        elif isinstance(node, ast.If):
            hook_src = ast.unparse(node)
            want = (f"if _os.environ.get('{ENV_HOOK}'):\n"
                    f"    default_array_size = IntegerLiteral(int(_os.environ['{ENV_HOOK}']))")
            if hook_src != want or first is None:
                raise Unsupported(node, "module-level `if` that is not the TENSORA_VERIF_INITIAL_CAPACITY hook")
            hook = node
        elif isinstance(node, (ast.Import, ast.ImportFrom, ast.ClassDef, ast.Expr)):
            continue
        elif isinstance(node, ast.Assign) and all(isinstance(t, ast.Name) and t.id == "__all__" for t in node.targets):
            continue
        else:
            raise Unsupported(node, "module-level statement of _append.py")
    if first is None:
        raise Unsupported(ast.Constant("default_array_size"), "not found")
    fake = Fn(("const",), "default_array_size", ast.FunctionDef(name="default_array_size", body=[], decorator_list=[],
                                                               args=None), None)
    fake.params = []
    fb = FnBody(g, fake, False)
    code, t = fb.ex(first.value, {})
    code = g.coerce(code, t, CLS("expr", "Expression"), first)
    if hook is None:
        g.out.append(f"Definition default_array_size (initial_capacity : option Z) : expr :=\n  {code}.\n")
    else:
        g.out.append("Definition default_array_size (initial_capacity : option Z) : expr :=\n"
                     f"  match initial_capacity with\n  | Some c_ => IntegerLiteral c_\n  | None => {code}\n  end.\n")
    g.has_default_array_size = True


def gen_to_expression(g: Gen, node: ast.FunctionDef):
    """match expression: case Expression(): ... case bool(): ... -> one arm per kind of exarg; a kind takes the
    first case (source order) whose class pattern accepts it (bool is a subclass of int)."""
    if len(node.args.args) != 1:
        raise Unsupported(node, "to_expression signature")
    p = node.args.args[0].arg
    body = [s for s in node.body if not (isinstance(s, ast.Expr) and isinstance(s.value, ast.Constant))]
    if len(body) != 1 or not isinstance(body[0], ast.Match) or not (isinstance(body[0].subject, ast.Name) and body[0].subject.id == p):
        raise Unsupported(node, "to_expression body")
    kinds = [("XE", "e_", CLS("expr", "Expression"), {"Expression", "Statement"}),
             ("XB", "b_", BOOL, {"bool", "int"}), ("XZ", "z_", Z, {"int"}),
             ("XF", "f_", FL, {"float"}), ("XS", "s_", STR, {"str"})]
    arms = []
    fake = Fn(("ir", None, "to_expression"), "to_expression", node, None)
    fake.params = []
    for tag, var, t, accepts in kinds:
        chosen = None
        for case in body[0].cases:
            pat = case.pattern
            if not (isinstance(pat, ast.MatchClass) and isinstance(pat.cls, ast.Name) and not pat.patterns and not pat.kwd_patterns
                    and case.guard is None):
                raise Unsupported(case.pattern, "case pattern of to_expression")
            if pat.cls.id in accepts:
                chosen = case
                break
        if chosen is None:
            raise Unsupported(node, f"to_expression has no case for {tag} (would return None)")
        if len(chosen.body) != 1 or not isinstance(chosen.body[0], ast.Return) or chosen.body[0].value is None:
            raise Unsupported(chosen.body[0], "case body of to_expression")
        fb = FnBody(g, fake, False)
        code, ct = fb.ex(chosen.body[0].value, {p: t})
        code = g.coerce(code, ct, CLS("expr", "Expression"), chosen.body[0])
        arms.append(f"  | {tag} {cname(p)} => {code}")
    g.out.append(f"Definition to_expression ({cname(p)} : exarg) : expr :=\n  match {cname(p)} with\n" + "\n".join(arms) + "\n  end.\n")
    fn = g.fns[("ir", None, "to_expression")]
    fn.params = [(p, XARG, None)]
    fn.ret = CLS("expr", "Expression")
    fn.done = True


def gen_append(src: Path) -> str:
    g = Gen(src)
    g.has_default_array_size = False
    out = g.out
    out.append(PRELUDE.format(
        src="src/tensora/ir/ast.py (helper methods), kernel_type.py, format/_format.py (Mode), "
            "iteration_graph/identifiable_expression/{ast.py (Tensor), _tensor_layer.py}, iteration_graph/_write_sparse_ir.py, "
            "iteration_graph/outputs/{_append.py, _bucket.py}"))
    out.append("From TV Require Import spec.PyLib.\nOpen Scope string_scope.\n\nFrom TV Require Import gen.IRAst gen.Names.\n")
    out.append(f"(* ir/_builder.py AST hash {g.builder_hash} *)")
    out.append(SUPPORT)
    # --- enums
    g.emit_enum(g.fmt_tree, "Mode", "Mode")
    kt_methods = g.emit_enum(g.kt_tree, "KernelType", "KernelType")
    for m, node in kt_methods.items():
        if m.startswith("__"):
            continue
        g.register(("rec", "KernelType", m), f"KernelType_{m}", node, owner="KernelType")
    # --- records
    g.emit_record("Tensor", g.ie_classes["Tensor"])
    for m, node in g.ie_classes["Tensor"].methods.items():
        g.register(("rec", "Tensor", m), f"Tensor_{m}", node, owner="Tensor")
    tl = g.tl_classes["TensorLayer"]
    g.emit_record("TensorLayer", tl)
    for m, node in tl.methods.items():
        g.register(("rec", "TensorLayer", m), f"TensorLayer_{m}", node, owner="TensorLayer")
    # --- names (gen/Names.v): signatures only
    for n, node in functions_of(g.names_tree).items():
        fn = Fn(("names", n), n, node, None)
        fn.params = [(a.arg, g.ann(a.annotation), None) for a in node.args.args]
        fn.ret = g.ann(node.returns)
        fn.done = True
        g.fns[("names", n)] = fn
    # --- ir/ast.py helpers (on demand)
    irfuncs = functions_of(g.irast_tree)
    if "to_expression" not in irfuncs:
        raise Unsupported(ast.Constant("to_expression"), "not found in ir/ast.py")
    g.fns[("ir", None, "to_expression")] = Fn(("ir", None, "to_expression"), "to_expression", irfuncs["to_expression"], None)
    gen_to_expression(g, irfuncs["to_expression"])
    for cls, k in g.irclasses.items():
        if g.ir_ind(cls) not in ("expr", "stmt"):
            continue
        for m, node in k.methods.items():
            g.register(("ir", cls, m), f"{cls}_{m}", node, owner=cls, static=is_static(node))
    # --- _write_sparse_ir.py
    wsi = functions_of(g.wsi_tree)
    for n, node in wsi.items():
        g.register(("fn", n), n, node)
    # --- _append.py
    gen_default_array_size(g)
    ao = parse_classes(g.append_tree)["AppendOutput"]
    bo_node = class_of(g.bucket_tree, "BucketOutput")
    bo = parse_classes(g.bucket_tree)["BucketOutput"]
    g.emit_record("AppendOutput", ao)
    g.emit_record("BucketOutput", bo)
    out.append("Inductive Output : Type := OutAppend (o : AppendOutput) | OutBucket (o : BucketOutput).\n")
    out.append("Definition Output_output (o : Output) : Tensor :=\n"
               "  match o with OutAppend a => AppendOutput_output a | OutBucket b => BucketOutput_output b end.\n")
    g.records["Output"] = []
    g._out_sum = True
    for m, node in ao.methods.items():
        g.register(("rec", "AppendOutput", m), f"AppendOutput_{m}", node, owner="AppendOutput")
    for m, node in bo.methods.items():
        if m == "__init__":
            continue
        g.register(("rec", "BucketOutput", m), f"BucketOutput_{m}", node, owner="BucketOutput")
    gen_bucket_init(g, bo.methods.get("__init__"))
    # translate: everything in the three emitter files
    for n in wsi:
        g.need(("fn", n), wsi[n])
    for m in bo.methods:
        if m != "__init__":
            g.need(("rec", "BucketOutput", m), bo.methods[m])
    for m in ao.methods:
        g.need(("rec", "AppendOutput", m), ao.methods[m])
    _ = bo_node
    return "\n".join(out)


def gen_bucket_init(g: Gen, node):
    """BucketOutput.__init__(self, output, layers, unfulfilled=None): a frozen dataclass with a hand-written
    constructor made of object.__setattr__(self, "<field>", <value>) statements; translated as a function that
    returns the record, every field must be set exactly once on every path."""
    if node is None:
        return
    src = ast.unparse(node)
    # rewrite object.__setattr__(self, "f", v)  ->  f__ = v   and append `return BucketOutput(f1__, f2__, ...)`
    flds = [fn for fn, _ in g.records["BucketOutput"]]

    class Rw(ast.NodeTransformer):
        def visit_Expr(self, e):
            c = e.value
            if isinstance(c, ast.Call) and ast.unparse(c.func) == "object.__setattr__" and len(c.args) == 3 \
                    and isinstance(c.args[0], ast.Name) and c.args[0].id == "self" \
                    and isinstance(c.args[1], ast.Constant) and c.args[1].value in flds:
                return ast.copy_location(ast.Assign(targets=[ast.Name(id=c.args[1].value + "__", ctx=ast.Store())],
                                                    value=c.args[2], lineno=e.lineno), e)
            return e

    tree = ast.parse(src).body[0]
    for x in ast.walk(tree):
        if isinstance(x, ast.Name) and x.id == "self" and not isinstance(x.ctx, ast.Load):
            raise Unsupported(node, "assignment to self")
    tree = Rw().visit(tree)
    for x in ast.walk(tree):
        if isinstance(x, ast.Attribute) and isinstance(x.value, ast.Name) and x.value.id == "self":
            raise Unsupported(node, "__init__ reads self")
    # `if unfulfilled is not None: A else: B` -> tail if/else with the constructor call at the end of both
    ret = ast.Return(value=ast.Call(func=ast.Name(id="__mk_BucketOutput", ctx=ast.Load()),
                                    args=[ast.Name(id=f + "__", ctx=ast.Load()) for f in flds], keywords=[]))
    body = list(tree.body)
    if body and isinstance(body[-1], ast.If) and body[-1].orelse:
        last = body[-1]
        last.body = list(last.body) + [ret]
        last.orelse = list(last.orelse) + [ret]
    else:
        body.append(ret)
    tree.body = body
    tree.args.args = tree.args.args[1:]  # drop self
    tree.returns = None
    ast.fix_missing_locations(tree)
    g.register(("rec", "BucketOutput", "__init__"), "BucketOutput_init", tree)
    fn = g.fns[("rec", "BucketOutput", "__init__")]
    fn.owner = None
    g.need(("rec", "BucketOutput", "__init__"), node)


# the pseudo constructor used by gen_bucket_init
_orig_call = FnBody.call


def _call(self, node, env):
    if isinstance(node.func, ast.Name) and node.func.id == "__mk_BucketOutput":
        flds = self.g.records["BucketOutput"]
        parts = []
        for a, (fn_, ft) in zip(node.args, flds):
            c, t = self.ex(a, env)
            parts.append(self.g.coerce(c, t, ft, node))
        return "(MkBucketOutput " + " ".join(parts) + ")", REC("BucketOutput")
    return _orig_call(self, node, env)


FnBody.call = _call


def targets(src: Path) -> dict:
    return {FILE: lambda: gen_append(src)}
