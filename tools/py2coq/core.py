"""py2coq: a small, fail-closed translator from the dataclass + singledispatch idiom of
/repo/src/tensora to Gallina text.

It understands exactly the constructs listed in DESIGN.md section 2.2; anything else raises
``Unsupported`` (reported by the checks as a broken obligation, never silently skipped).
"""

from __future__ import annotations

import ast
from dataclasses import dataclass, field


class Unsupported(Exception):
    def __init__(self, node, why=""):
        loc = f"line {getattr(node, 'lineno', '?')}"
        try:
            src = ast.unparse(node)
        except Exception:
            src = repr(node)
        super().__init__(f"py2coq: unsupported construct at {loc}: {why}: {src[:200]}")


# --------------------------------------------------------------------------------------------
# class tables
# --------------------------------------------------------------------------------------------


@dataclass
class PyClass:
    name: str
    bases: list[str]
    fields: list[tuple[str, ast.expr, ast.expr | None]]  # (name, annotation, default)
    is_dataclass: bool
    methods: dict[str, ast.FunctionDef] = field(default_factory=dict)


def parse_classes(tree: ast.Module) -> dict[str, PyClass]:
    out: dict[str, PyClass] = {}
    for node in tree.body:
        if not isinstance(node, ast.ClassDef):
            continue
        bases = []
        for b in node.bases:
            if isinstance(b, ast.Name):
                bases.append(b.id)
            elif isinstance(b, ast.Attribute):
                bases.append(b.attr)
            else:
                raise Unsupported(b, "base class")
        is_dc = any(
            (isinstance(d, ast.Call) and getattr(d.func, "id", "") == "dataclass")
            or (isinstance(d, ast.Name) and d.id == "dataclass")
            for d in node.decorator_list
        )
        fields = []
        methods = {}
        for item in node.body:
            if isinstance(item, ast.AnnAssign) and isinstance(item.target, ast.Name):
                fields.append((item.target.id, item.annotation, item.value))
            elif isinstance(item, ast.FunctionDef):
                methods[item.name] = item
            elif isinstance(item, (ast.Expr, ast.Pass)):
                continue  # docstring / pass
            elif isinstance(item, ast.Assign) and all(
                isinstance(t, ast.Name) and t.id == "__slots__" for t in item.targets
            ):
                continue
            else:
                raise Unsupported(item, f"class body of {node.name}")
        out[node.name] = PyClass(node.name, bases, fields, is_dc, methods)
    return out


# constructor names that are reserved words of Coq's vernacular
COQ_RENAME = {"Variable": "Var", "Module": "IRModule", "Type": "Type_"}


@dataclass
class Ctor:
    coq: str  # constructor name
    ind: str  # inductive it belongs to
    fields: list[tuple[str, str]]  # (python field name, coq type)
    pyclass: str


class Universe:
    """All inductive types known to the translator."""

    def __init__(self):
        self.classes: dict[str, PyClass] = {}
        self.root_of: dict[str, str] = {}  # python class -> coq inductive (for abstract & concrete)
        self.ctors: dict[str, Ctor] = {}  # python class -> Ctor
        self.inds: dict[str, list[Ctor]] = {}  # coq inductive -> ctors in source order
        self.embed: dict[tuple[str, str], str] = {}  # (sub ind, super ind) -> embedding ctor
        self.extra_types: dict[str, str] = {}  # python annotation name -> coq type

    def subclasses(self, cls: str) -> list[str]:
        """Concrete dataclasses that are (transitively) subclasses of cls, source order."""
        res = []
        for c in self.classes.values():
            if c.is_dataclass and self.is_sub(c.name, cls):
                res.append(c.name)
        return res

    def is_sub(self, c: str, anc: str) -> bool:
        if c == anc:
            return True
        k = self.classes.get(c)
        return bool(k) and any(self.is_sub(b, anc) for b in k.bases)

    def coq_type(self, ann: ast.expr) -> str:
        if isinstance(ann, ast.Constant) and isinstance(ann.value, str):
            ann = ast.parse(ann.value, mode="eval").body
        if isinstance(ann, ast.Name):
            n = ann.id
            prim = {"str": "string", "int": "Z", "float": "F", "bool": "bool"}
            if n in prim:
                return prim[n]
            if n in self.extra_types:
                return self.extra_types[n]
            if n in self.root_of:
                return self.root_of[n]
            raise Unsupported(ann, "unknown type name")
        if isinstance(ann, ast.Subscript) and isinstance(ann.value, ast.Name):
            if ann.value.id in ("list", "Sequence"):
                return f"(list {self.coq_type(ann.slice)})"
            if ann.value.id == "tuple":
                sl = ann.slice
                if (
                    isinstance(sl, ast.Tuple)
                    and len(sl.elts) == 2
                    and isinstance(sl.elts[1], ast.Constant)
                    and sl.elts[1].value is Ellipsis
                ):
                    return f"(list {self.coq_type(sl.elts[0])})"
            raise Unsupported(ann, "subscript type")
        if isinstance(ann, ast.BinOp) and isinstance(ann.op, ast.BitOr):
            if isinstance(ann.right, ast.Constant) and ann.right.value is None:
                return f"(option {self.coq_type(ann.left)})"
            # union of classes of the same inductive
            l, r = self.coq_type(ann.left), self.coq_type(ann.right)
            if l == r:
                return l
        raise Unsupported(ann, "type annotation")

    def add_inductive(self, ind: str, root: str, members: list[str], prefix: str = "",
                      exclude_root: str | None = None):
        """Declare Coq inductive `ind` for python root class `root`; `members` are the concrete
        dataclasses that become constructors."""
        self.inds[ind] = []
        for c in self.classes.values():
            if self.is_sub(c.name, root) and (exclude_root is None or not self.is_sub(c.name, exclude_root)):
                self.root_of[c.name] = ind
        for m in members:
            self.root_of[m] = ind
        for m in members:
            k = self.classes[m]
            flds = [(fn, None) for fn, _, _ in k.fields]
            ct = Ctor(COQ_RENAME.get(prefix + m, prefix + m), ind, flds, m)
            self.ctors[m] = ct
            self.inds[ind].append(ct)

    def resolve_fields(self):
        for ct in self.ctors.values():
            k = self.classes[ct.pyclass]
            ct.fields = [(fn, self.coq_type(ann)) for fn, ann, _ in k.fields]

    # ---------------------------------------------------------------- emission
    def emit_inductives(self, groups: list[list[str]]) -> str:
        out = []
        for group in groups:
            first = True
            for ind in group:
                kw = "Inductive" if first else "with"
                first = False
                out.append(f"{kw} {ind} : Type :=")
                for ct in self.inds[ind]:
                    args = " ".join(f"({fn} : {ty})" for fn, ty in ct.fields)
                    out.append(f"  | {ct.coq} {args}".rstrip())
                for (sub, sup), name in self.embed.items():
                    if sup == ind:
                        out.append(f"  | {name} (e : {sub})")
            out[-1] = out[-1]
            out.append(".")
            out.append("")
        return "\n".join(out)

    def eqb_name(self, ty: str) -> str:
        ty = ty.strip()
        base = {"string": "String.eqb", "Z": "Z.eqb", "bool": "Bool.eqb", "F": "Feqb"}
        if ty in base:
            return base[ty]
        if ty in self.inds:
            return f"{ty}_eqb"
        if ty.startswith("(list "):
            return f"(list_eqb {self.eqb_name(ty[6:-1])})"
        if ty.startswith("(option "):
            return f"(option_eqb {self.eqb_name(ty[8:-1])})"
        raise Unsupported(ast.Constant(ty), "no equality for type")

    def emit_eqb(self, ind: str) -> str:
        """Structural equality following dataclass.__eq__ (same class, fields compared in order);
        floats compare numerically, as Python's == does."""
        out = [f"Fixpoint {ind}_eqb (a b : {ind}) {{struct a}} : bool :=", "  match a, b with"]
        for ct in self.inds[ind]:
            la = " ".join(f"a_{fn}" for fn, _ in ct.fields)
            lb = " ".join(f"b_{fn}" for fn, _ in ct.fields)
            conj = " && ".join(f"{self.eqb_name(ty)} a_{fn} b_{fn}" for fn, ty in ct.fields) or "true"
            out.append(f"  | {ct.coq} {la}, {ct.coq} {lb} => {conj}")
        for (sub, sup), name in self.embed.items():
            if sup == ind:
                out.append(f"  | {name} a_e, {name} b_e => {self.eqb_name(sub)} a_e b_e")
        out.append("  | _, _ => false")
        out.append("  end.")
        return "\n".join(out) + "\n"

    def emit_recognizers(self, ind: str) -> str:
        out = []
        for ct in self.inds[ind]:
            wild = " ".join("_" for _ in ct.fields)
            out.append(
                f"Definition is_{ct.coq} (x : {ind}) : bool := match x with {ct.coq} {wild} => true | _ => false end."
            )
        return "\n".join(out) + "\n"


# --------------------------------------------------------------------------------------------
# expression / statement translation
# --------------------------------------------------------------------------------------------


def float_lit(v: float) -> str:
    import math

    if v == 0.0 and math.copysign(1.0, v) > 0:
        return "F0"
    if v == 1.0:
        return "F1"
    if math.isnan(v) or math.isinf(v):
        raise Unsupported(ast.Constant(v), "non-finite float literal")
    m, e = math.frexp(abs(v))  # v = m * 2**e, 0.5 <= m < 1
    mi = int(m * (1 << 53))
    ee = e - 53
    while mi and mi % 2 == 0:
        mi //= 2
        ee += 1
    neg = "true" if math.copysign(1.0, v) < 0 else "false"
    return f"(Fmake {neg} {mi} ({ee}))"


@dataclass
class FuncSig:
    name: str  # coq name
    params: list[tuple[str, str]]  # (name, coq type)
    ret: str


class Scope:
    def __init__(self, tr: "Translator", self_ctor: Ctor | None, self_type: str | None,
                 ret: str, self_name: str = "self"):
        self.tr = tr
        self.self_ctor = self_ctor
        self.self_type = self_type
        self.self_name = self_name
        self.ret = ret
        self.types: dict[str, str] = {}
        if self_type:
            self.types[self_name] = self_type

    def field_var(self, f: str) -> str:
        return f"{self.self_name}_{f}"


class Translator:
    def __init__(self, U: Universe):
        self.U = U
        self.sigs: dict[str, FuncSig] = {}
        self.methods: dict[tuple[str, str], str] = {}  # (pyclass, method) -> coq function
        self.py_ctor_alias: dict[str, str] = {}  # name used in source -> python class name

    # -------------------------------------------------------------- expressions
    def class_of_name(self, n: ast.expr) -> str | None:
        if isinstance(n, ast.Name):
            n = self.py_ctor_alias.get(n.id, n.id)
            return n if n in self.U.classes else None
        if isinstance(n, ast.Attribute):
            a = self.py_ctor_alias.get(ast.unparse(n), n.attr)
            return a if a in self.U.classes else None
        return None

    def expr(self, e: ast.expr, sc: Scope, want: str | None = None) -> tuple[str, str]:
        """Translate; returns (coq text, coq type)."""
        U = self.U
        if isinstance(e, ast.Name):
            if e.id in sc.types:
                return e.id, sc.types[e.id]
            raise Unsupported(e, "unbound name")
        if isinstance(e, ast.Constant):
            v = e.value
            if isinstance(v, bool):
                return ("true" if v else "false"), "bool"
            if isinstance(v, int):
                return f"({v})%Z", "Z"
            if isinstance(v, float):
                return float_lit(v), "F"
            if isinstance(v, str):
                return '"' + v.replace('"', '""') + '"%string', "string"
            if v is None:
                return "None", want or "(option _)"
            raise Unsupported(e, "constant")
        if isinstance(e, ast.UnaryOp) and isinstance(e.op, ast.USub) and isinstance(e.operand, ast.Constant):
            v = e.operand.value
            if isinstance(v, int) and not isinstance(v, bool):
                return f"(-{v})%Z", "Z"
            if isinstance(v, float):
                return float_lit(-v), "F"
        if isinstance(e, ast.UnaryOp) and isinstance(e.op, ast.Not):
            t, ty = self.expr(e.operand, sc)
            self.need(ty, "bool", e)
            return f"(negb {t})", "bool"
        if isinstance(e, ast.Attribute):
            if isinstance(e.value, ast.Name) and e.value.id == sc.self_name and sc.self_ctor:
                for fn, ty in sc.self_ctor.fields:
                    if fn == e.attr:
                        return sc.field_var(fn), ty
                raise Unsupported(e, "no such field")
            raise Unsupported(e, "attribute access on a non-self value")
        if isinstance(e, ast.BoolOp):
            # recognise `isinstance(x, K) and x.m()` : the method is only called when the
            # isinstance holds, which the generated method (false on other constructors) mirrors
            parts = [self.expr(v, sc) for v in e.values]
            for _, ty in parts:
                self.need(ty, "bool", e)
            op = " && " if isinstance(e.op, ast.And) else " || "
            return "(" + op.join(t for t, _ in parts) + ")", "bool"
        if isinstance(e, ast.Compare) and len(e.ops) == 1:
            l, lt = self.expr(e.left, sc)
            r, rt = self.expr(e.comparators[0], sc, want=lt)
            op = e.ops[0]
            if isinstance(op, (ast.Eq, ast.NotEq)):
                lt2 = self.unify(lt, rt, e)
                l, r = self.coerce(l, lt, lt2), self.coerce(r, rt, lt2)
                t = f"({U.eqb_name(lt2)} {l} {r})"
                return (t if isinstance(op, ast.Eq) else f"(negb {t})"), "bool"
            raise Unsupported(e, "comparison operator")
        if isinstance(e, ast.Call):
            return self.call(e, sc, want)
        if isinstance(e, ast.List):
            if not e.elts:
                return "nil", want or "(list _)"
            parts = [self.expr(x, sc) for x in e.elts]
            ty = parts[0][1]
            return "[" + "; ".join(t for t, _ in parts) + "]", f"(list {ty})"
        if isinstance(e, ast.ListComp) and len(e.generators) == 1:
            g = e.generators[0]
            if g.ifs or not isinstance(g.target, ast.Name):
                raise Unsupported(e, "comprehension")
            it, ity = self.expr(g.iter, sc)
            if not ity.startswith("(list "):
                raise Unsupported(e, "comprehension over non-list")
            elt_ty = ity[6:-1]
            old = sc.types.get(g.target.id)
            sc.types[g.target.id] = elt_ty
            body, bty = self.expr(e.elt, sc)
            if old is None:
                del sc.types[g.target.id]
            else:
                sc.types[g.target.id] = old
            return f"(map (fun {g.target.id} => {body}) {it})", f"(list {bty})"
        raise Unsupported(e, "expression")

    def need(self, ty, expect, node):
        if ty != expect:
            raise Unsupported(node, f"expected {expect}, got {ty}")

    def unify(self, a: str, b: str, node) -> str:
        if a == b:
            return a
        if (a, b) in self.U.embed:
            return b
        if (b, a) in self.U.embed:
            return a
        raise Unsupported(node, f"cannot unify {a} and {b}")

    def coerce(self, t: str, frm: str, to: str) -> str:
        if frm == to or to is None:
            return t
        if (frm, to) in self.U.embed:
            return f"({self.U.embed[(frm, to)]} {t})"
        if frm.endswith("_)"):
            return t
        raise Unsupported(ast.Constant(t), f"cannot coerce {frm} to {to}")

    def call(self, e: ast.Call, sc: Scope, want) -> tuple[str, str]:
        U = self.U
        f = e.func
        # isinstance(x, K) / isinstance(x, (K1, K2))
        if isinstance(f, ast.Name) and f.id == "isinstance" and len(e.args) == 2:
            x, xt = self.expr(e.args[0], sc)
            ks = e.args[1].elts if isinstance(e.args[1], ast.Tuple) else [e.args[1]]
            tests = []
            for k in ks:
                cn = self.class_of_name(k)
                if cn is None or cn not in U.ctors:
                    raise Unsupported(e, "isinstance against a non-constructor class")
                ct = U.ctors[cn]
                if ct.ind != xt:
                    if (ct.ind, xt) in U.embed:
                        emb = U.embed[(ct.ind, xt)]
                        tests.append(f"match {x} with {emb} e_ => is_{ct.coq} e_ | _ => false end")
                        continue
                    raise Unsupported(e, "isinstance across types")
                tests.append(f"is_{ct.coq} {x}")
            return "(" + " || ".join(tests) + ")", "bool"
        if isinstance(f, ast.Name) and f.id == "len" and len(e.args) == 1:
            x, xt = self.expr(e.args[0], sc)
            return f"(Z.of_nat (List.length {x}))", "Z"
        if isinstance(f, ast.Name) and f.id == "replace":
            if not (isinstance(e.args[0], ast.Name) and e.args[0].id == sc.self_name and sc.self_ctor):
                raise Unsupported(e, "replace() on a non-self value")
            kw = {k.arg: k.value for k in e.keywords}
            args = []
            for fn, ty in sc.self_ctor.fields:
                if fn in kw:
                    t, tt = self.expr(kw.pop(fn), sc, want=ty)
                    args.append(self.coerce(t, tt, ty))
                else:
                    args.append(sc.field_var(fn))
            if kw:
                raise Unsupported(e, "replace() of unknown field")
            return f"({sc.self_ctor.coq} {' '.join(args)})", sc.self_ctor.ind
        # constructor call
        cn = self.class_of_name(f)
        if cn is not None and cn in U.ctors:
            ct = U.ctors[cn]
            k = U.classes[cn]
            vals: dict[str, ast.expr] = {}
            for (fn, _), a in zip(ct.fields, e.args):
                vals[fn] = a
            for kwd in e.keywords:
                vals[kwd.arg] = kwd.value
            args = []
            for (fn, ty), (_, _, default) in zip(ct.fields, k.fields):
                if fn in vals:
                    t, tt = self.expr(vals[fn], sc, want=ty)
                elif default is not None:
                    t, tt = self.expr(default, sc, want=ty)
                else:
                    raise Unsupported(e, f"missing constructor argument {fn}")
                args.append(self.coerce(t, tt, ty))
            return f"({ct.coq} {' '.join(args)})".replace(" )", ")"), ct.ind
        # known function
        if isinstance(f, ast.Name) and f.id in self.sigs:
            sig = self.sigs[f.id]
            if len(e.args) != len(sig.params) or e.keywords:
                raise Unsupported(e, "arity")
            args = []
            for a, (pn, pt) in zip(e.args, sig.params):
                t, tt = self.expr(a, sc, want=pt)
                args.append(self.coerce(t, tt, pt))
            return f"({sig.name} {' '.join(args)})", sig.ret
        # method call x.m() on a dataclass value
        if isinstance(f, ast.Attribute) and not e.args and not e.keywords:
            x, xt = self.expr(f.value, sc)
            cands = [(pc, m) for (pc, m) in self.methods if m == f.attr and U.root_of.get(pc) == xt]
            if len(cands) == 1:
                fn = self.methods[cands[0]]
                return f"({fn} {x})", self.sigs[fn].ret
        raise Unsupported(e, "call")

    # -------------------------------------------------------------- statements
    def body(self, stmts: list[ast.stmt], sc: Scope) -> str:
        """Translate a statement sequence that ends in return on every path."""
        if not stmts:
            raise Unsupported(ast.Pass(), "function body may fall off the end")
        s, rest = stmts[0], stmts[1:]
        if isinstance(s, ast.Expr) and isinstance(s.value, ast.Constant) and isinstance(s.value.value, str):
            return self.body(rest, sc)  # docstring
        if isinstance(s, ast.Return):
            if rest:
                raise Unsupported(s, "code after return")
            t, ty = self.expr(s.value, sc, want=sc.ret)
            return self.coerce(t, ty, sc.ret)
        if isinstance(s, ast.Assign) and len(s.targets) == 1 and isinstance(s.targets[0], ast.Name):
            name = s.targets[0].id
            # accumulator loop:  acc = [] ; for v in it: ... acc.append(x)
            if (
                isinstance(s.value, ast.List)
                and not s.value.elts
                and rest
                and isinstance(rest[0], ast.For)
            ):
                loop, ety = self.acc_loop(name, rest[0], sc)
                sc.types[name] = f"(list {ety})"
                k = self.body(rest[1:], sc)
                return f"let {name} := {loop} in\n    {k}"
            t, ty = self.expr(s.value, sc)
            sc.types[name] = ty
            k = self.body(rest, sc)
            return f"let {name} := {t} in\n    {k}"
        if isinstance(s, ast.If):
            c, cty = self.expr(s.test, sc)
            self.need(cty, "bool", s)
            # both branches must return; code after the if is only allowed when absent
            saved = dict(sc.types)
            a = self.body(list(s.body) + ([] if self.returns(s.body) else rest), sc)
            sc.types = dict(saved)
            if s.orelse:
                b = self.body(list(s.orelse) + ([] if self.returns(s.orelse) else rest), sc)
            else:
                b = self.body(rest, sc)
            sc.types = saved
            return f"if {c} then {a}\n    else {b}"
        if isinstance(s, ast.Raise):
            raise Unsupported(s, "raise in a translated body")
        raise Unsupported(s, "statement")

    def returns(self, stmts) -> bool:
        if not stmts:
            return False
        last = stmts[-1]
        if isinstance(last, ast.Return):
            return True
        if isinstance(last, ast.If):
            return self.returns(last.body) and bool(last.orelse) and self.returns(last.orelse)
        return False

    def acc_loop(self, acc: str, loop: ast.For, sc: Scope) -> tuple[str, str]:
        if not isinstance(loop.target, ast.Name) or loop.orelse:
            raise Unsupported(loop, "for loop shape")
        it, ity = self.expr(loop.iter, sc)
        if not ity.startswith("(list "):
            raise Unsupported(loop, "for over non-list")
        v = loop.target.id
        saved = dict(sc.types)
        sc.types[v] = ity[6:-1]
        elt_ty: list[str] = []

        def is_append(st):
            return (
                isinstance(st, ast.Expr)
                and isinstance(st.value, ast.Call)
                and isinstance(st.value.func, ast.Attribute)
                and st.value.func.attr == "append"
                and isinstance(st.value.func.value, ast.Name)
                and st.value.func.value.id == acc
                and len(st.value.args) == 1
            )

        def go(stmts) -> str:
            if not stmts:
                return "loop_ rest_"
            st, more = stmts[0], stmts[1:]
            if isinstance(st, ast.Pass):
                return go(more)
            if isinstance(st, ast.Assign) and len(st.targets) == 1 and isinstance(st.targets[0], ast.Name):
                t, ty = self.expr(st.value, sc)
                sc.types[st.targets[0].id] = ty
                return f"let {st.targets[0].id} := {t} in {go(more)}"
            if is_append(st):
                if more:
                    raise Unsupported(st, "statements after append")
                t, ty = self.expr(st.value.args[0], sc)
                elt_ty.append(ty)
                return f"{t} :: loop_ rest_"
            if isinstance(st, ast.If):
                if more:
                    raise Unsupported(st, "statements after if in loop")
                c, cty = self.expr(st.test, sc)
                self.need(cty, "bool", st)
                return f"if {c} then {go(list(st.body))} else {go(list(st.orelse))}"
            raise Unsupported(st, "loop body statement")

        body = go(list(loop.body))
        sc.types = saved
        if not elt_ty:
            raise Unsupported(loop, "loop never appends")
        ety = elt_ty[0]
        return (
            f"((fix loop_ (l_ : {ity}) : (list {ety}) := match l_ with nil => nil | {v} :: rest_ => {body} end) {it})",
            ety,
        )


# --------------------------------------------------------------------------------------------
# singledispatch families
# --------------------------------------------------------------------------------------------


@dataclass
class Family:
    name: str
    base: ast.FunctionDef
    regs: list[tuple[list[str], ast.FunctionDef]]


def _deco_name(d) -> str:
    try:
        return ast.unparse(d)
    except Exception:
        return ""


def parse_functions(tree: ast.Module):
    """Returns (families, plain functions) of a module."""
    fams: dict[str, Family] = {}
    plain: dict[str, ast.FunctionDef] = {}
    for node in tree.body:
        if not isinstance(node, ast.FunctionDef):
            continue
        decos = [_deco_name(d) for d in node.decorator_list]
        if "singledispatch" in decos:
            fams[node.name] = Family(node.name, node, [])
            continue
        regs = [d for d in node.decorator_list if isinstance(d, ast.Call)
                and isinstance(d.func, ast.Attribute) and d.func.attr == "register"]
        if regs:
            if len(regs) != len(node.decorator_list):
                raise Unsupported(node, "mixed decorators")
            fam = regs[0].func.value.id
            classes = []
            for r in regs:
                if r.func.value.id != fam or len(r.args) != 1:
                    raise Unsupported(node, "register shape")
                a = r.args[0]
                classes.append(a.id if isinstance(a, ast.Name) else a.attr)
            fams[fam].regs.append((classes, node))
            continue
        if node.decorator_list:
            raise Unsupported(node, "decorator")
        plain[node.name] = node
    return fams, plain


def is_raise_only(fn: ast.FunctionDef) -> bool:
    body = [s for s in fn.body if not (isinstance(s, ast.Expr) and isinstance(s.value, ast.Constant))]
    return len(body) == 1 and isinstance(body[0], ast.Raise)


class FamilyEmitter:
    def __init__(self, tr: Translator, fams: dict[str, Family]):
        self.tr = tr
        self.fams = fams
        self.U = tr.U

    def mro(self, cls: str) -> list[str]:
        out = [cls]
        k = self.U.classes.get(cls)
        if k:
            for b in k.bases:
                for c in self.mro(b):
                    if c not in out:
                        out.append(c)
        return out

    def registration_for(self, fam: Family, cls: str):
        for c in self.mro(cls):
            for classes, fn in fam.regs:
                if c in classes:
                    return fn
        return None

    def declare(self, fam: Family, domain: str):
        args = fam.base.args.args
        params = [("self", domain)]
        for a in args[1:]:
            params.append((a.arg, self.U.coq_type(a.annotation)))
        ret = self.U.coq_type(fam.base.returns) if fam.base.returns is not None else domain
        self.tr.sigs[fam.name] = FuncSig(fam.name, params, ret)

    def delegate_target(self, fn: ast.FunctionDef, fam: Family):
        """`return g(self, <same extra params>)` with g another family over the same domain."""
        body = [s for s in fn.body if not (isinstance(s, ast.Expr) and isinstance(s.value, ast.Constant))]
        if len(body) == 1 and isinstance(body[0], ast.Return) and isinstance(body[0].value, ast.Call):
            c = body[0].value
            if (
                isinstance(c.func, ast.Name)
                and c.func.id in self.fams
                and c.func.id != fam.name
                and c.args
                and isinstance(c.args[0], ast.Name)
                and c.args[0].id == fn.args.args[0].arg
                and len(c.args) == 1
            ):
                return self.fams[c.func.id]
        return None

    def arm_body(self, fam: Family, ct: Ctor, depth=0) -> str:
        sig = self.tr.sigs[fam.name]
        fn = self.registration_for(fam, ct.pyclass)
        if fn is None:
            if not is_raise_only(fam.base):
                raise Unsupported(fam.base, "default body is not a bare raise")
            if sig.ret != sig.params[0][1]:
                raise Unsupported(fam.base, "cannot totalise a raise at a different return type")
            return "self (* raise NotImplementedError: unreachable on well-formed trees *)"
        tgt = self.delegate_target(fn, fam)
        if tgt is not None and self.tr.sigs[tgt.name].params[0][1] == sig.params[0][1] and depth < 3:
            return self.arm_body(tgt, ct, depth + 1)
        sname = fn.args.args[0].arg
        sc = Scope(self.tr, ct, ct.ind, sig.ret, self_name=sname)
        for a, (pn, pt) in zip(fn.args.args[1:], sig.params[1:]):
            sc.types[a.arg] = pt
        body = self.tr.body(fn.body, sc)
        if sname != "self":
            body = f"let {sname} := self in {body}"
        return body

    def emit_group(self, names: list[str], keyword="Fixpoint") -> str:
        out = []
        for i, n in enumerate(names):
            fam = self.fams[n]
            sig = self.tr.sigs[n]
            dom = sig.params[0][1]
            kw = keyword if i == 0 else "with"
            ps = " ".join(f"({pn} : {pt})" for pn, pt in sig.params)
            out.append(f"{kw} {n} {ps} {{struct self}} : {sig.ret} :=")
            out.append("  match self with")
            for ct in self.U.inds[dom]:
                pat = " ".join(f"self_{fn}" for fn, _ in ct.fields)
                out.append(f"  | {ct.coq} {pat} =>".replace("  =>", " =>"))
                out.append("    " + self.arm_body(fam, ct))
            for (sub, sup), emb in self.U.embed.items():
                if sup != dom:
                    continue
                # registration for the python root class of the embedded inductive
                roots = [c for c, ind in self.U.root_of.items() if ind == sub and c not in self.U.ctors]
                fn = None
                for r in roots:
                    for classes, f in fam.regs:
                        if r in classes:
                            fn = f
                if fn is None:
                    raise Unsupported(fam.base, f"no registration for embedded {sub}")
                sname = fn.args.args[0].arg
                sc = Scope(self.tr, None, sub, sig.ret, self_name=sname)
                for a, (pn, pt) in zip(fn.args.args[1:], sig.params[1:]):
                    sc.types[a.arg] = pt
                body = self.tr.body(fn.body, sc)
                out.append(f"  | {emb} e_ => let {sname} := e_ in {body}")
            out.append("  end")
        out[-1] += "."
        return "\n".join(out) + "\n"

    def emit_plain(self, fn: ast.FunctionDef) -> str:
        a0 = fn.args.args[0]
        cls = a0.annotation.id if isinstance(a0.annotation, ast.Name) else None
        if cls not in self.U.ctors:
            raise Unsupported(fn, "plain function over a non-record class")
        ct = self.U.ctors[cls]
        ret = self.U.coq_type(fn.returns)
        params = [(a0.arg, ct.ind)] + [(a.arg, self.U.coq_type(a.annotation)) for a in fn.args.args[1:]]
        self.tr.sigs[fn.name] = FuncSig(fn.name, params, ret)
        sc = Scope(self.tr, ct, ct.ind, ret, self_name=a0.arg)
        for pn, pt in params[1:]:
            sc.types[pn] = pt
        body = self.tr.body(fn.body, sc)
        ps = " ".join(f"({pn} : {pt})" for pn, pt in params)
        pat = " ".join(f"{a0.arg}_{f}" for f, _ in ct.fields)
        arms = [f"  | {ct.coq} {pat} =>\n    {body}"]
        if len(self.U.inds[ct.ind]) > 1:
            raise Unsupported(fn, "plain function over a multi-constructor type")
        return f"Definition {fn.name} {ps} : {ret} :=\n  match {a0.arg} with\n" + "\n".join(arms) + "\n  end.\n"

    def emit_bool_method(self, cls: str, meth: str) -> str:
        k = self.U.classes[cls]
        fn = k.methods[meth]
        ct = self.U.ctors[cls]
        name = f"{cls}_{meth}"
        self.tr.sigs[name] = FuncSig(name, [("self", ct.ind)], "bool")
        self.tr.methods[(cls, meth)] = name
        sc = Scope(self.tr, ct, ct.ind, "bool", self_name=fn.args.args[0].arg)
        body = self.tr.body(fn.body, sc)
        pat = " ".join(f"self_{f}" for f, _ in ct.fields)
        return (
            f"Definition {name} (self : {ct.ind}) : bool :=\n  match self with\n  | {ct.coq} {pat} => {body}\n"
            f"  | _ => false (* AttributeError on other classes; only called under isinstance *)\n  end.\n"
        )


PRELUDE = """(* GENERATED by /verif/tools/py2coq from {src} -- do not edit; regenerated on every check run. *)
From Coq Require Import ZArith Bool List String.
From TV Require Import spec.Num spec.PyBase.
Import ListNotations.
Open Scope bool_scope.
"""
