"""py2coq.extra_genir: THE LOOP GENERATOR iteration_graph/_generate_ir.py regenerated into Gallina
(gen/GenerateIR.v), on top of what colleagues already regenerate:

  gen/AppendGen.v   (extra_append.py)  ir helper methods, KernelType, Mode, Tensor, TensorLayer, the emitters of
                                       _write_sparse_ir.py, outputs/_append.py, outputs/_bucket.py, SourceBuilder as `sb`
  gen/Exhaust.v     (extra.py)         exhaust_tensor, extract_context, Context
  gen/IterGraphs.v  (extra_graphs.py)  ig_graph (the node classes), ig_later_indexes
  gen/GlueGen.v     (extra_glue.py)    IgDefinition, TensorDimension, KernelType (second copy)
  gen/Names.v                          the name functions

Translated here (state passing, option monad, as extra_append.py whose FnBody is subclassed):
  iteration_graph/_generate_ir.py                 everything
  iteration_graph/outputs/_base.py                Output.written_flags, Output.has_sparse_layer
  iteration_graph/identifiable_expression/_to_ir.py   the family to_ir
  ir/ast.py                                       further helper methods on demand (And.join, Min.join, Branch.join, ...)
  _tensor_layer.py                                further methods on demand (value_from_crd, mode)
PINNED (hand reading in SUPPORT, hash of ast.unparse checked, fail closed): the node classes of
  iteration_graph/iteration_graph.py, class Context, _stable_set.StableFrozenSet, and (through extra_append) ir/_builder.py.

Everything else raises Unsupported: the generated file then does not compile.  design.d/TIE_genir.md.
"""

from __future__ import annotations

import ast
import copy
import hashlib
from pathlib import Path

from . import extra_append as EA
from .core import PRELUDE, Unsupported, parse_classes
from .extra_append import (BOOL, CLS, FL, KT, LIST, MODE, NONE, OPT, REC, SB, STR, TUP, TY, UNIT, XARG, Fn, FnBody, Gen,
                           NeedMonad, T, Z, cname, cstr)

FILE = "GenerateIR.v"

GRAPH, IDX, DEFN, SFS, FMT, TD, FD, NAT = (T("ig_graph"), T("id_expr"), T("IgDefinition"), T("sfs"), T("Format"),
                                           T("TensorDimension"), T("function_definition"), T("nat"))
UNKNOWN = T("unknown")


def DICT(k, v):
    return T("dict", (k, v))


# ------------------------------------------------------------------------------------------------
# extension of extra_append.coq_of (pure extension: the kinds below are only created in this module)
_orig_coq_of = EA.coq_of


def coq_of(t: T) -> str:
    if t.k in ("ig_graph", "id_expr", "IgDefinition", "function_definition", "nat"):
        return t.k
    if t.k == "sfs":
        return "(list string)"
    if t.k == "Format":
        return "IterGraphs.Format"
    if t.k == "TensorDimension":
        return "GlueGen.TensorDimension"
    if t.k == "dict":
        return f"(list ({coq_of(t.a[0])} * {coq_of(t.a[1])}))"
    return _orig_coq_of(t)


if getattr(EA.coq_of, "__name__", "") != "coq_of_genir":
    coq_of.__name__ = "coq_of_genir"
    EA.coq_of = coq_of

# sha256 of the ast.unparse of the pinned classes (hand reading below)
PINS = {
    "iteration_graph.py:IterationGraph": "PIN_IterationGraph",
    "iteration_graph.py:TerminalNode": "PIN_TerminalNode",
    "iteration_graph.py:IterationNode": "PIN_IterationNode",
    "iteration_graph.py:SumNode": "PIN_SumNode",
    "_extract_context.py:Context": "PIN_Context",
    "_stable_set.py:StableFrozenSet": "PIN_StableFrozenSet",
}
PIN_VALUES = {
    "PIN_IterationGraph": "b63ccb0a46bf011d",
    "PIN_TerminalNode": "5367a28911e74d1b",
    "PIN_IterationNode": "2b2c24bdab3ed3c4",
    "PIN_SumNode": "12ee3aff8be1b3fc",
    "PIN_Context": "7a8927790b3fc1da",
    "PIN_StableFrozenSet": "a666ac83728c01ef",
}

# the import block of _generate_ir.py: names are resolved by identifier, so the imports are pinned
EXPECTED_IMPORTS = {
    ("__future__", "annotations"), ("functools", "singledispatch"), ("..format", "Mode"), ("..ir", "SourceBuilder"),
    ("..ir", "types"), ("..ir.ast", "And"), ("..ir.ast", "Block"), ("..ir.ast", "BooleanToInteger"), ("..ir.ast", "Branch"),
    ("..ir.ast", "Declaration"), ("..ir.ast", "Equal"), ("..ir.ast", "Expression"), ("..ir.ast", "FunctionDefinition"),
    ("..ir.ast", "IntegerLiteral"), ("..ir.ast", "LessThan"), ("..ir.ast", "Min"), ("..ir.ast", "Return"),
    ("..ir.ast", "Variable"), ("..kernel_type", "KernelType"), ("._definition", "Definition"),
    ("._names", "crd_name"), ("._names", "dimension_name"), ("._names", "pos_name"), ("._names", "vals_name"),
    ("._names", "written_name"), ("._write_sparse_ir", "write_crd_assembly"), ("._write_sparse_ir", "write_pos_allocation"),
    ("._write_sparse_ir", "write_pos_assembly"), ("._write_sparse_ir", "write_sparse_initialization"),
    (".identifiable_expression", "to_ir"), (".identifiable_expression._tensor_layer", "TensorLayer"),
    (".identifiable_expression.ast", "Integer"), (".iteration_graph", "IterationGraph"), (".iteration_graph", "IterationNode"),
    (".iteration_graph", "SumNode"), (".iteration_graph", "TerminalNode"), (".outputs", "AppendOutput"), (".outputs", "Output"),
}

NODE_CTOR = {"TerminalNode": "IgTerminalNode", "IterationNode": "IgIterationNode", "SumNode": "IgSumNode"}

SUPPORT = r'''
(* ---------------------------------------------------------------------------------------------- *)
(* fixed support text of tools/py2coq/extra_genir.py *)

(* The Python classes Mode, Tensor, TensorLayer, KernelType are regenerated twice (gen/ExhaustAst.v by extra.py,
   gen/AppendGen.v by extra_append.py; KernelType also in gen/GlueGen.v).  Values cross from one copy to the
   other through these conversions (identity in Python).  A TensorLayer whose tensor is not a Tensor gives None
   (AttributeError at the first field access; the annotation `tensor: id.Tensor` excludes it). *)
Definition conv_mode (m : ExhaustAst.Mode) : Mode :=
  match m with ExhaustAst.Mode_dense => Mode_dense | ExhaustAst.Mode_compressed => Mode_compressed end.
Definition conv_kernel_type (k : GlueGen.KernelType) : KernelType :=
  match k with
  | GlueGen.KernelType_assemble => KernelType_assemble
  | GlueGen.KernelType_compute => KernelType_compute
  | GlueGen.KernelType_evaluate => KernelType_evaluate
  end.
@@CONV_TENSOR@@
Definition conv_layer (l : ExhaustAst.TensorLayer) : option TensorLayer :=
  match l with ExhaustAst.MkTensorLayer t k => obind (conv_tensor t) (fun t' => Some (MkTensorLayer t' k)) end.
Definition conv_olayer (o : option ExhaustAst.TensorLayer) : option (option TensorLayer) :=
  match o with None => Some None | Some l => obind (conv_layer l) (fun l' => Some (Some l')) end.
Definition conv_format_modes (f : IterGraphs.Format) : list Mode := map conv_mode (IterGraphs.Format_modes f).

(* _stable_set.StableFrozenSet[str] (pinned): a duplicate-free list in insertion order; == and hash are those
   of the underlying frozenset, so as a dict key two sets with the same elements are the same key and the dict
   keeps the key object that was inserted first (PyLib.dict_set keeps k'). *)
Definition sfs_of (l : list string) : list string := set_display String.eqb l.
Definition sfs_reversed (l : list string) : list string := sfs_of (rev l).
Definition sfs_subset (a b : list string) : bool := forallb (fun x => py_in String.eqb x b) a.
Definition sfs_eqb (a b : list string) : bool := sfs_subset a b && sfs_subset b a.

(* set.add / set.issubset on sets as duplicate-free lists (only membership is observed) *)
Definition set_add {A} (eqb : A -> A -> bool) (x : A) (s : list A) : list A := if py_in eqb x s then s else (s ++ [x])%list.
Definition set_issubset {A} (eqb : A -> A -> bool) (a b : list A) : bool := forallb (fun x => py_in eqb x b) a.

(* d.update(e) *)
Definition dict_update {K V} (eqb : K -> K -> bool) (d e : list (K * V)) : list (K * V) :=
  fold_left (fun acc kv => dict_set eqb (fst kv) (snd kv) acc) e d.

(* `while True: body` where the body leaves through `break`: the state is the tuple of the variables that live
   across iterations; the body returns (state, broke).  None = an exception, or OUT OF FUEL. *)
Fixpoint py_while {S : Type} (fuel : nat) (body : S -> option (S * bool)) (s : S) : option S :=
  match fuel with
  | O => None
  | S f => match body s with
           | None => None
           | Some (s', true) => Some s'
           | Some (s', false) => py_while f body s'
           end
  end.

(* sorted(xs, key=k, reverse=True) on precomputed integer keys: Python's sort is stable also with reverse=True
   (elements with equal keys keep their original order): insertion from the right, an element goes before the
   first element whose key is not greater.  Facts (permutation, sorted, stable): proofs/GenGenIR_equiv.v *)
Fixpoint insert_desc {A} (x : Z * A) (l : list (Z * A)) : list (Z * A) :=
  match l with
  | [] => [x]
  | y :: r => if (fst y >? fst x)%Z then y :: insert_desc x r else x :: y :: r
  end.
Definition py_sorted_desc {A} (l : list (Z * A)) : list (Z * A) := fold_right insert_desc [] l.

(* with b.block(comment): BlockBuilder.finalize gives a Block STATEMENT, appended as such *)
Definition sb_close_block (outer : sb) (c : option string) (inner : sb) : sb :=
  sb_append_stmt outer (Block (sb_lines inner) c).

(* KernelType.name: the identifier of the member *)
@@KT_NAME@@

(* ---- iteration_graph/iteration_graph.py (PINNED hand reading of the node classes; ig_graph is gen/IterGraphs.v's).
   IterationNode.context is what __post_init__ stored: self.extract_context(self.index_variable); dataclasses.replace
   re-runs __post_init__, so it is always the context of the current fields.  None = a Python exception.
   Not modelled: an exception of __post_init__ raised while a node is BUILT by exhaust_tensor although its context
   is never used (generate_subgraphs asks compressed_dimensions() of every graph it builds, so it is used). *)
Fixpoint ig_extract_context (g : ig_graph) (index : string) {struct g} : option Context :=
  match g with
  | IgTerminalNode e => extract_context e index
  | IgIterationNode iv _ nxt =>
      obind (ig_extract_context nxt index) (fun c =>
        match c with MkContext sp sl dl ixs => Some (MkContext sp sl dl (set_union String.eqb ixs (set_of_list String.eqb [iv]))) end)
  | IgSumNode _ ts =>
      (fix go (l : list ig_graph) (acc : Context) {struct l} : option Context :=
         match l with
         | [] => Some acc
         | t :: r => obind (ig_extract_context t index) (fun c' => go r (Context_add acc c'))
         end) ts (MkContext true [] [] [])
  end.

Definition ig_context (g : ig_graph) : option Context :=
  match g with IgIterationNode iv _ _ => ig_extract_context g iv | _ => None end.

Fixpoint ig_exhaust_tensor (g : ig_graph) (reference : string) {struct g} : ig_graph :=
  match g with
  | IgTerminalNode e => IgTerminalNode (fst (exhaust_tensor e reference))
  | IgIterationNode iv o nxt => IgIterationNode iv o (ig_exhaust_tensor nxt reference)
  | IgSumNode n ts =>
      match map (fun t => ig_exhaust_tensor t reference) ts with
      | [] => IgTerminalNode (IdInteger 0%Z)
      | [t] => t
      | new_terms => IgSumNode n new_terms
      end
  end.

Definition ig_compressed_dimensions (g : ig_graph) : option (list string) :=
  match g with
  | IgIterationNode _ _ _ =>
      obind (ig_context g) (fun c =>
      obind (omap conv_layer (Context_sparse_leaves c)) (fun ls =>
      Some (sfs_of (map (fun l => Tensor_id (TensorLayer_tensor l)) ls))))
  | _ => Some []
  end.

Definition ig_sparse_leaves (g : ig_graph) : option (list TensorLayer) :=
  match g with
  | IgIterationNode _ _ _ => obind (ig_context g) (fun c => omap conv_layer (Context_sparse_leaves c))
  | _ => None
  end.

Definition ig_dense_leaves (g : ig_graph) : option (list TensorLayer) :=
  match g with
  | IgIterationNode _ _ _ => obind (ig_context g) (fun c => omap conv_layer (Context_dense_leaves c))
  | _ => None
  end.

Definition ig_is_sparse_input (g : ig_graph) : option bool :=
  match g with
  | IgIterationNode _ _ _ => obind (ig_context g) (fun c => Some (Context_is_sparse c))
  | _ => None
  end.

Definition ig_is_sparse_output (g : ig_graph) : option bool :=
  match g with
  | IgIterationNode _ (Some l) _ =>
      obind (conv_layer l) (fun l' =>
      obind (py_getitem (Tensor_modes (TensorLayer_tensor l')) (TensorLayer_layer l')) (fun m =>
      Some (Mode_eqb m Mode_compressed)))
  | _ => Some false
  end.

Definition ig_next (g : ig_graph) : option ig_graph :=
  match g with IgIterationNode _ _ n => Some n | _ => None end.

(* fuel that is always enough (argument in design.d/TIE_genir.md): recursion depth of to_ir_iteration_graph is at most
   the height of the graph (exhaust_tensor never makes a graph higher); the `while True` of generate_subgraphs runs at
   most (number of tensor leaves) + 1 times (the largest key set shrinks in every round). *)
Fixpoint id_expr_leaves (e : id_expr) : nat :=
  match e with
  | IdTensor _ _ _ _ => 1
  | IdAdd a b => id_expr_leaves a + id_expr_leaves b
  | IdMultiply a b => id_expr_leaves a + id_expr_leaves b
  | _ => 0
  end.
Fixpoint ig_leaves (g : ig_graph) : nat :=
  match g with
  | IgTerminalNode e => id_expr_leaves e
  | IgIterationNode _ _ n => ig_leaves n
  | IgSumNode _ ts => fold_right (fun t acc => ig_leaves t + acc) 0 ts
  end.
Definition ig_fuel (g : ig_graph) : nat := S (S (ig_graph_size g + ig_leaves g)).
'''


def _h(s: str) -> str:
    return hashlib.sha256(s.encode()).hexdigest()[:16]


def class_text(tree, name):
    for node in tree.body:
        if isinstance(node, ast.ClassDef) and node.name == name:
            return ast.unparse(node)
    raise Unsupported(ast.Constant(name), "pinned class not found")


# ------------------------------------------------------------------------------------------------
class GGen(Gen):
    """extra_append.Gen + the types and functions of the loop generator"""

    def __init__(self, src: Path):
        super().__init__(src)
        t = src / "tensora"
        self.gi_tree = ast.parse((t / "iteration_graph/_generate_ir.py").read_text())
        self.base_tree = ast.parse((t / "iteration_graph/outputs/_base.py").read_text())
        self.toir_tree = ast.parse((t / "iteration_graph/identifiable_expression/_to_ir.py").read_text())
        self.ig_tree = ast.parse((t / "iteration_graph/iteration_graph.py").read_text())
        self.ctx_tree = ast.parse((t / "iteration_graph/identifiable_expression/_extract_context.py").read_text())
        self.ss_tree = ast.parse((t / "_stable_set.py").read_text())
        self.node_classes = parse_classes(self.ig_tree)
        self.uses_fuel_fns: set = set()
        self.graph_family = None  # name of the singledispatch base
        self.in_prefix = True
        self.pin_report = {}
        self.check_pins()
        self.check_imports()

    # ---------------------------------------------------------------- pins
    def check_pins(self):
        trees = {"iteration_graph.py": self.ig_tree, "_extract_context.py": self.ctx_tree, "_stable_set.py": self.ss_tree}
        for key, pin in PINS.items():
            f, cls = key.split(":")
            h = _h(class_text(trees[f], cls))
            self.pin_report[key] = h
            if PIN_VALUES[pin] != h:
                raise Unsupported(ast.Constant(key), f"pinned class {key} changed (hash {h}, pinned {PIN_VALUES[pin]}): the hand "
                                  "reading in tools/py2coq/extra_genir.py SUPPORT must be re-validated")

    def check_imports(self):
        got = set()
        for node in self.gi_tree.body:
            if isinstance(node, ast.ImportFrom):
                for al in node.names:
                    if al.asname is not None:
                        raise Unsupported(node, "renaming import in _generate_ir.py")
                    got.add(("." * node.level + (node.module or ""), al.name))
            elif isinstance(node, ast.Import):
                raise Unsupported(node, "import statement in _generate_ir.py")
        if got != EXPECTED_IMPORTS:
            raise Unsupported(ast.Constant(sorted(got ^ EXPECTED_IMPORTS)), "import block of _generate_ir.py changed (names are resolved by identifier)")
        for node in ast.walk(self.gi_tree):
            if isinstance(node, (ast.FunctionDef, ast.ClassDef)) and node.name in self.irclasses:
                raise Unsupported(node, "definition in _generate_ir.py that shadows an IR class")
            if isinstance(node, (ast.Global, ast.Nonlocal)):
                raise Unsupported(node, "global/nonlocal")

    # ---------------------------------------------------------------- types
    def ann(self, a):
        if isinstance(a, ast.Constant) and isinstance(a.value, str):
            a = ast.parse(a.value, mode="eval").body
        if isinstance(a, ast.Name):
            n = a.id
            if n in ("IterationGraph", "IterationNode", "SumNode", "TerminalNode"):
                return GRAPH
            if n == "Output":
                return REC("Output")
            if n == "Definition":
                return DEFN
            if n == "FunctionDefinition":
                return FD
        if isinstance(a, ast.Subscript) and isinstance(a.value, ast.Name) and a.value.id == "StableFrozenSet":
            if self.ann(a.slice) != STR:
                raise Unsupported(a, "StableFrozenSet of non-str")
            return SFS
        return super().ann(a)

    def join(self, a, b, node):
        if a == b:
            return a
        if a == NONE and b.k not in ("option", "none"):
            return OPT(b)
        if b == NONE and a.k not in ("option", "none"):
            return OPT(a)
        if a.k == "option" and b.k != "option" and b != NONE:
            return OPT(self.join(a.a[0], b, node))
        if b.k == "option" and a.k != "option" and a != NONE:
            return OPT(self.join(a, b.a[0], node))
        if a.k == "list" and b.k == "list":
            if a.a[0] in (NONE, UNKNOWN):
                return b
            if b.a[0] in (NONE, UNKNOWN):
                return a
        if a.k == "dict" and b.k == "dict":
            if UNKNOWN in a.a:
                return b
            if UNKNOWN in b.a:
                return a
        if a == UNKNOWN:
            return b
        if b == UNKNOWN:
            return a
        return super().join(a, b, node)

    def coerce(self, code, f, t, node):
        if f == t:
            return code
        if f.k == "dict" and t.k == "dict" and UNKNOWN in f.a:
            return code
        if f == UNKNOWN:
            return code
        if f.k == "list" and t.k == "list" and f.a[0] in (NONE, UNKNOWN):
            return code
        return super().coerce(code, f, t, node)

    def eqb(self, t, node):
        if t == SFS:
            return "sfs_eqb"
        if t == IDX:
            return "id_expr_eqb"
        return super().eqb(t, node)

    def self_type(self, fn: Fn) -> T:
        if fn.owner == "Output":
            return REC("Output")
        return super().self_type(fn)

    # ---------------------------------------------------------------- functions
    def translate_fn(self, fn: Fn):
        if self.in_prefix:
            return super().translate_fn(fn)
        node = fn.node
        a = node.args
        if a.vararg or a.kwarg or a.kwonlyargs or a.posonlyargs:
            raise Unsupported(node, "argument kinds")
        params = []
        defaults = [None] * (len(a.args) - len(a.defaults)) + list(a.defaults)
        node_cls = getattr(fn, "node_cls", None)
        for i, (arg, d) in enumerate(zip(a.args, defaults)):
            if i == 0 and fn.owner and not fn.static:
                if arg.arg != "self":
                    raise Unsupported(node, "first parameter of a method must be self")
                params.append(("self", self.self_type(fn), None))
            else:
                pt = self.ann(arg.annotation)
                if i == 0 and node_cls is not None:
                    if arg.arg != "self" or not (isinstance(arg.annotation, ast.Name) and arg.annotation.id == node_cls):
                        raise Unsupported(node, "a registered function must take `self: <registered class>`")
                params.append((arg.arg, pt, d))
        fn.params = params
        declared = self.ann(node.returns) if node.returns is not None else getattr(fn, "declared", None)
        for monadic in (False, True):
            fb = GBody(self, fn, monadic)
            try:
                code, rt = fb.run(declared)
            except NeedMonad:
                continue
            fn.partial = monadic
            fn.uses_cap = fb.uses_cap
            fn.uses_fuel = fb.uses_fuel
            fn.uses_rec = fb.uses_rec
            fn.ret = rt
            ps = "".join(f" ({cname(n)} : {coq_of(t)})" for n, t, _ in params)
            if fn.uses_rec:
                ps = f" (rec_ : {self.rec_type()})" + ps
            if fn.uses_fuel:
                ps = " (fuel_ : nat)" + ps
            if fn.uses_cap:
                ps = " (initial_capacity : option Z)" + ps
            rts = coq_of(rt)
            if monadic:
                rts = f"(option {rts})"
            self.out.append(f"Definition {fn.coq}{ps} : {rts} :=\n{code}.\n")
            return
        raise Unsupported(node, "could not translate")

    def rec_type(self):
        return "ig_graph -> Output -> KernelType -> option sb"


# ------------------------------------------------------------------------------------------------
# AST normalisations (sound rewrites of statement lists; the input trees are deep copies)
# ------------------------------------------------------------------------------------------------


def _is_break(ss):
    return len(ss) == 1 and isinstance(ss[0], ast.Break)


def _is_continue(ss):
    return len(ss) == 1 and isinstance(ss[0], ast.Continue)


def _not(test):
    return ast.UnaryOp(op=ast.Not(), operand=test)


def norm_stmts(ss, in_loop=False):
    """match on enum values -> if chain;  `if c: continue` + rest -> `if c: pass else: rest`;
    `if c: A else: break` -> `if not c: break` + A;  `if c: break else: A` -> `if c: break` + A"""
    out = []
    ss = list(ss)
    i = 0
    while i < len(ss):
        s = ss[i]
        i += 1
        if isinstance(s, ast.Match):
            chain = None
            for case in reversed(s.cases):
                p = case.pattern
                if case.guard is not None or not (isinstance(p, ast.MatchValue) and isinstance(p.value, ast.Attribute)
                                                  and isinstance(p.value.value, ast.Name) and p.value.value.id in ("Mode", "KernelType")):
                    raise Unsupported(case.pattern, "match pattern (only enum member values)")
                test = ast.Compare(left=copy.deepcopy(s.subject), ops=[ast.Eq()], comparators=[p.value])
                node = ast.If(test=test, body=case.body, orelse=[chain] if chain is not None else [])
                chain = ast.copy_location(node, s)
            if not isinstance(s.subject, ast.Name):
                raise Unsupported(s, "match subject (only a variable)")
            s = chain
        if isinstance(s, ast.If):
            if in_loop and _is_continue(s.body) and not s.orelse:
                rest = norm_stmts(ss[i:], in_loop)
                new = ast.copy_location(ast.If(test=s.test, body=[ast.Pass()], orelse=rest or [ast.Pass()]), s)
                out.append(new)
                return out
            if in_loop and s.orelse and _is_break(s.orelse):
                out.append(ast.copy_location(ast.If(test=_not(s.test), body=[ast.Break()], orelse=[]), s))
                ss[i:i] = list(s.body)
                continue
            if in_loop and s.orelse and _is_break(s.body):
                out.append(ast.copy_location(ast.If(test=s.test, body=[ast.Break()], orelse=[]), s))
                ss[i:i] = list(s.orelse)
                continue
            s.body = norm_stmts(s.body, in_loop)
            s.orelse = norm_stmts(s.orelse, in_loop)
        elif isinstance(s, ast.For):
            s.body = norm_stmts(s.body, True)
        elif isinstance(s, ast.While):
            s.body = norm_stmts(s.body, True)
        elif isinstance(s, ast.With):
            s.body = norm_stmts(s.body, in_loop)
        out.append(s)
    for s in out:
        if isinstance(s, ast.Continue):
            raise Unsupported(s, "continue that is not `if c: continue` at the top of a loop body")
    return out


class _SelfFields(ast.NodeTransformer):
    def __init__(self, fields):
        self.fields = fields

    def visit_Attribute(self, node):
        self.generic_visit(node)
        if isinstance(node.value, ast.Name) and node.value.id == "self" and node.attr in self.fields:
            if not isinstance(node.ctx, ast.Load):
                raise Unsupported(node, "store into a field of self")
            return ast.copy_location(ast.Name(id="self_" + node.attr, ctx=ast.Load()), node)
        return node


def has_unknown(t: T) -> bool:
    if t == UNKNOWN or t == NONE:
        return True
    if t.k in ("list", "dict", "option", "tuple"):
        return any(isinstance(x, T) and has_unknown(x) for x in t.a)
    return False



def own_break(stmts) -> bool:
    """a `break` that belongs to the loop whose body is `stmts` (not to a nested loop)"""
    for s in stmts:
        if isinstance(s, ast.Break):
            return True
        if isinstance(s, ast.If) and (own_break(s.body) or own_break(s.orelse)):
            return True
        if isinstance(s, ast.With) and own_break(s.body):
            return True
    return False

GRAPH_METHODS = {
    # name: (coq, [param types], result type, partial)
    "compressed_dimensions": ("ig_compressed_dimensions", [], SFS, True),
    "exhaust_tensor": ("ig_exhaust_tensor", [STR], GRAPH, False),
    "sparse_leaves": ("ig_sparse_leaves", [], LIST(REC("TensorLayer")), True),
    "dense_leaves": ("ig_dense_leaves", [], LIST(REC("TensorLayer")), True),
    "is_sparse_input": ("ig_is_sparse_input", [], BOOL, True),
    "is_sparse_output": ("ig_is_sparse_output", [], BOOL, True),
    "later_indexes": ("ig_later_indexes", [], LIST(STR), False),
}


class GBody(FnBody):
    def __init__(self, g, fn, monadic):
        super().__init__(g, fn, monadic)
        self.uses_fuel = False
        self.uses_rec = False
        self.maybe_unbound: set = set()
        self.node_cls = getattr(fn, "node_cls", None)

    # --------------------------------------------------------------- entry
    def run(self, declared):
        g = self.g
        self.declared = declared
        env = {n: t for n, t, _ in self.fn.params}
        body = [s for s in copy.deepcopy(self.fn.node.body)
                if not (isinstance(s, ast.Expr) and isinstance(s.value, ast.Constant))]
        head = tail = ""
        if self.node_cls is not None:
            if not self.monadic:
                raise NeedMonad()
            k = g.node_classes[self.node_cls]
            flds = [f for f, _, _ in k.fields]
            body = [_SelfFields(flds).visit(s) for s in body]
            pats = []
            pre = []
            for f, an, _ in k.fields:
                ft = g.node_field_type(an)
                env["self_" + f] = ft
                if ft == OPT(REC("TensorLayer")):
                    pats.append(f"self_{f}0_")
                    pre.append(f"obind (conv_olayer self_{f}0_) (fun self_{f} =>\n  ")
                else:
                    pats.append("self_" + f)
            head = f"match self with\n  | {NODE_CTOR[self.node_cls]} {' '.join(pats)} =>\n  " + "".join(pre)
            tail = ")" * len(pre) + "\n  | _ => None\n  end"
        body = norm_stmts(body)
        body = self.mark_unbound(body, env)
        self.alias_check(body)
        code = self.block(body, env, None, "  ", tail=True)
        if self.ret_type is None:
            raise Unsupported(self.fn.node, "function without return")
        return "  " + head + code + tail, self.ret_type

    def mark_unbound(self, body, env):
        """`if c: v = e` (no else) at the top level of the function, v not assigned before and read later:
        v = None is inserted before the `if`; a later read of v unwraps it (None = UnboundLocalError)."""
        seen = set(env)
        out = []
        for i, s in enumerate(body):
            if isinstance(s, ast.If) and not s.orelse:
                for v in self.assigned(s.body):
                    later = any(isinstance(x, ast.Name) and x.id == v and isinstance(x.ctx, ast.Load)
                                for n in body[i + 1:] for x in ast.walk(n))
                    if v not in seen and later and v in self.must(s.body):
                        out.append(ast.copy_location(ast.Assign(targets=[ast.Name(id=v, ctx=ast.Store())],
                                                                value=ast.Constant(None), lineno=s.lineno), s))
                        self.maybe_unbound.add(v)
            for v in self.assigned([s]):
                seen.add(v)
            out.append(s)
        for s in out:
            ast.fix_missing_locations(s)
        return out

    @staticmethod
    def assigned(stmts):
        out = FnBody.assigned(stmts)

        def add(n):
            if n not in out:
                out.append(n)

        def go(ss):
            for s in ss:
                if isinstance(s, ast.Expr) and isinstance(s.value, ast.Call) and isinstance(s.value.func, ast.Attribute) \
                        and s.value.func.attr in ("add", "update") and isinstance(s.value.func.value, ast.Name):
                    add(s.value.func.value.id)
                elif isinstance(s, ast.Assign) and len(s.targets) == 1 and isinstance(s.targets[0], ast.Subscript) \
                        and isinstance(s.targets[0].value, ast.Name):
                    add(s.targets[0].value.id)
                elif isinstance(s, ast.If):
                    go(s.body)
                    go(s.orelse)
                elif isinstance(s, (ast.For, ast.While, ast.With)):
                    go(s.body)
                    if isinstance(s, ast.While):
                        for n in FnBody.assigned(s.body):
                            add(n)

        go(stmts)
        return out

    def subst(self, n0, tmp, v, code):
        self.pending[n0:] = [(x, c.replace(tmp, v)) for x, c in self.pending[n0:]]
        return code.replace(tmp, v)

    def unwrap(self, code, t, node):
        """a value of type option used where the object itself is needed: None raises (AttributeError /
        UnboundLocalError) at that use; here at once (no side effect in between is observable)"""
        if t.k != "option":
            return code, t
        return self.partial_op(code, node), t.a[0]

    # --------------------------------------------------------------- statements
    def block(self, stmts, env, outvars, ind, tail=False, outtypes=None):
        if not stmts or isinstance(stmts[0], (EA._Probe, EA._BreakRest, EA._Closer)):
            return super().block(stmts, env, outvars, ind, tail, outtypes)
        s, rest = stmts[0], stmts[1:]
        g = self.g
        k = lambda e: self.block(rest, e, outvars, ind, tail, outtypes)  # noqa: E731
        env = dict(env)
        if isinstance(s, ast.Assign) and len(s.targets) == 1 and isinstance(s.targets[0], ast.Name) \
                and isinstance(s.value, ast.Constant) and s.value.value is None and s.targets[0].id in self.maybe_unbound:
            env[s.targets[0].id] = NONE  # no binding: every later use goes through a coercion of NONE
            return k(env)
        if isinstance(s, ast.Assign) and len(s.targets) == 1 and isinstance(s.targets[0], ast.Tuple):
            tg = s.targets[0]
            if not all(isinstance(e, ast.Name) for e in tg.elts):
                raise Unsupported(s, "tuple target")
            code, t = self.ex(s.value, env)
            if t.k != "tuple" or len(t.a) != len(tg.elts):
                raise Unsupported(s, "unpacking of something that is not a tuple of that length")
            names = []
            for e, et in zip(tg.elts, t.a):
                if e.id in self.open_builders:
                    raise Unsupported(s, "assignment to a builder inside its own `with`")
                if e.id == "_":
                    names.append("_")
                else:
                    names.append(cname(e.id))
                    env[e.id] = et
            p = self.take()
            return self.wrap(p, f"let '({', '.join(names)}) := {code} in\n{ind}" + k(env), ind)
        if isinstance(s, ast.Assign) and len(s.targets) == 1 and isinstance(s.targets[0], ast.Subscript):
            tg = s.targets[0]
            if not (isinstance(tg.value, ast.Name) and tg.value.id in env and env[tg.value.id].k == "dict"):
                raise Unsupported(s, "item store (only into a local dict)")
            d = tg.value.id
            if d not in self.local_dicts(env):
                raise Unsupported(s, "item store into a dict that is not a local made by a display or .copy()")
            kc, kt = self.ex(tg.slice, env)
            vc, vt = self.ex(s.value, env)
            dt = env[d]
            if UNKNOWN in dt.a:
                dt = DICT(kt, vt)
                env[d] = dt
            kc, vc = g.coerce(kc, kt, dt.a[0], s), g.coerce(vc, vt, dt.a[1], s)
            p = self.take()
            return self.wrap(p, f"let {cname(d)} := (dict_set {g.eqb(dt.a[0], s)} {kc} {vc} {cname(d)}) in\n{ind}" + k(env), ind)
        if isinstance(s, ast.Expr) and isinstance(s.value, ast.Call) and isinstance(s.value.func, ast.Attribute) \
                and isinstance(s.value.func.value, ast.Name) and s.value.func.attr in ("add", "update") \
                and len(s.value.args) == 1 and not s.value.keywords:
            c = s.value
            recv = c.func.value.id
            if recv not in env:
                raise Unsupported(s, "unknown variable")
            rt = env[recv]
            ac, at = self.ex(c.args[0], env)
            if c.func.attr == "add" and rt.k == "list":
                if has_unknown(rt):
                    rt = LIST(at)
                    env[recv] = rt
                new = f"(set_add {g.eqb(rt.a[0], s)} {g.coerce(ac, at, rt.a[0], s)} {cname(recv)})"
            elif c.func.attr == "update" and rt.k == "dict" and at.k == "dict":
                if recv not in self.local_dicts(env):
                    raise Unsupported(s, "update of a dict that is not a local")
                if UNKNOWN in rt.a:
                    rt = at
                    env[recv] = rt
                new = f"(dict_update {g.eqb(rt.a[0], s)} {cname(recv)} {g.coerce(ac, at, rt, s)})"
            else:
                raise Unsupported(s, f".{c.func.attr} on a {rt}")
            p = self.take()
            return self.wrap(p, f"let {cname(recv)} := {new} in\n{ind}" + k(env), ind)
        if isinstance(s, ast.With) and len(s.items) == 1 and s.items[0].optional_vars is None:
            ce = s.items[0].context_expr
            if isinstance(ce, ast.Call) and isinstance(ce.func, ast.Attribute) and isinstance(ce.func.value, ast.Name) \
                    and ce.func.attr == "block" and len(ce.args) <= 1 and not ce.keywords:
                b = ce.func.value.id
                if env.get(b) != SB:
                    raise Unsupported(s, "with on something that is not a SourceBuilder")
                if ce.args:
                    cc, ct = self.ex(ce.args[0], env)
                    if ct == STR:
                        cc = f"(Some {cc})"
                    elif ct != NONE:
                        raise Unsupported(s, "block comment")
                else:
                    cc = "None"
                outer = g.fresh(cname(b) + "_o")
                cond = g.fresh("c")
                self.no_tail_inside(s.body)
                self.open_builders.append(b)
                closer = EA._Closer(b, outer, cond, "sb_close_block")
                p = self.take()
                body_code = self.block(list(s.body) + [closer] + list(rest), env, outvars, ind, tail, outtypes)
                headc = (f"let {cond} := {cc} in\n{ind}let {outer} := {cname(b)} in\n{ind}"
                         f"let {cname(b)} := MkSB [] None in\n{ind}")
                return self.wrap(p, headc + body_code, ind)
        if isinstance(s, ast.While):
            return self.while_stmt(s, rest, env, outvars, ind, tail, outtypes)
        return super().block(stmts, env, outvars, ind, tail, outtypes)

    def no_tail_inside(self, stmts):
        for n in stmts:
            for x in ast.walk(n):
                if isinstance(x, ast.Return):
                    raise Unsupported(x, "return inside a `with` block")
        # break / continue inside a loop that is itself inside the `with` are fine; at the level of the with they are not
        def top(ss):
            for s in ss:
                if isinstance(s, (ast.Break, ast.Continue)):
                    raise Unsupported(s, "break/continue leaving a `with` block")
                if isinstance(s, ast.If):
                    top(s.body)
                    top(s.orelse)
                if isinstance(s, ast.With):
                    top(s.body)
        top(stmts)

    def local_dicts(self, env):
        """locals that hold a dict made in this function by a display or .copy() (item stores are only accepted
        on those; `a = b` between dict variables is accepted when the source never stores into the old name
        afterwards -- checked syntactically in while_stmt's caller: see alias_check)"""
        return {v for v, t in env.items() if t.k == "dict" and v in self.dict_locals}

    dict_locals: set = frozenset()

    def while_stmt(self, s, rest, env, outvars, ind, tail, outtypes):
        if not self.monadic:
            raise NeedMonad()
        if s.orelse or not (isinstance(s.test, ast.Constant) and s.test.value is True):
            raise Unsupported(s, "while (only `while True:` left through break)")
        for n in s.body:
            for x in ast.walk(n):
                if isinstance(x, (ast.Return, ast.Continue)):
                    raise Unsupported(x, "return/continue inside a while loop")
        if not any(isinstance(x, ast.Break) for n in s.body for x in ast.walk(n)):
            raise Unsupported(s, "while True without break")
        i2 = ind + "  "
        self.uses_fuel = True
        acc = [v for v in self.assigned(s.body) if v in env]
        # variables first assigned inside the body must not be read after the loop
        inner = [v for v in self.assigned(s.body) if v not in env]
        for n in rest:
            for x in ast.walk(n):
                if isinstance(x, ast.Name) and x.id in inner:
                    raise Unsupported(x, "variable first assigned inside a while loop and used after it")
        # types of the accumulators must be stable: probe one run of the body without its breaks
        stripped = [n for n in s.body if not self._is_break_if(n)]
        after = self.env_after(stripped, env)
        for v in acc:
            if has_unknown(env[v]):
                env[v] = after[v]
            elif after[v] != env[v] and not has_unknown(after[v]):
                raise Unsupported(s, f"type of {v} changes in the loop ({env[v]} -> {after[v]})")
        types = [env[v] for v in acc]
        body = self.break_body(list(s.body), env, acc, i2, types)
        accpat = self.pat_of(acc) if len(acc) != 1 else cname(acc[0])
        init, _ = self.tuple_of(acc, env)
        acc_ty = " * ".join(coq_of(t) for t in types) if types else "unit"
        if accpat.startswith("'"):
            lam = f"(fun (acc_ : {acc_ty}) => let {accpat} := acc_ in\n{i2}{self.split_flag(body, acc)})"
        else:
            lam = f"(fun ({accpat} : {acc_ty}) =>\n{i2}{self.split_flag(body, acc)})"
        env2 = dict(env)
        kcode = self.block(rest, env2, outvars, ind, tail, outtypes)
        respat = self.pat_of(acc)
        return f"obind (py_while fuel_ {lam} {init}) (fun {respat} =>\n{ind}{kcode})"

    def split_flag(self, body, acc):
        """break_body returns Some (v1, ..., vn, flag); py_while wants Some ((v1, ..., vn), flag)"""
        n = len(acc)
        if n <= 1:
            return body if n == 1 else f"obind ({body}) (fun r_ => Some (tt, snd r_))"
        vs = ", ".join(f"w{i}_" for i in range(n))
        return f"obind ({body}) (fun '({vs}, b_) => Some (({vs}), b_))"

    def for_stmt(self, s, rest, env, outvars, ind, tail, outtypes):
        """extra_append's for_stmt with: empty displays of any container type resolved by a probe of the body"""
        env = dict(env)
        body_assigned = self.assigned(s.body)
        unk = [v for v in body_assigned if v in env and has_unknown(env[v])]
        if unk:
            it_code, it_t = self.iterable(s.iter, env)
            self.pending = []
            env_b = dict(env)
            self.bind_target(s.target, it_t.a[0], env_b, s)
            stripped = [n for n in s.body if not self._is_break_if(n)]
            after = self.env_after(stripped, env_b)
            for v in unk:
                if has_unknown(after[v]):
                    raise Unsupported(s, f"no element type for {v}")
                env[v] = after[v]
        return self.for_stmt_base(s, rest, env, outvars, ind, tail, outtypes)

    # copies of extra_append's for_stmt / break_body where a `break` of a NESTED loop is not taken for a break of this one
    def for_stmt_base(self, s, rest, env, outvars, ind, tail, outtypes):
        if s.orelse:
            raise Unsupported(s, "for/else")
        i2 = ind + "  "
        env = dict(env)
        it_code, it_t = self.iterable(s.iter, env)
        p = self.take()
        elt = it_t.a[0]
        env_b = dict(env)
        if isinstance(s.target, ast.Name):
            pat = cname(s.target.id)
            env_b[s.target.id] = elt
            loopnames = [s.target.id]
        elif isinstance(s.target, ast.Tuple) and all(isinstance(e, ast.Name) for e in s.target.elts) \
                and elt.k == "tuple" and len(elt.a) == len(s.target.elts):
            pat = "'(" + ", ".join(cname(e.id) for e in s.target.elts) + ")"
            loopnames = [e.id for e in s.target.elts]
            for e, t in zip(s.target.elts, elt.a):
                env_b[e.id] = t
        else:
            raise Unsupported(s, "loop target")
        for n in s.body:
            for x in ast.walk(n):
                if isinstance(x, (ast.Return, ast.Continue)):
                    raise Unsupported(x, "return/continue inside a loop")
        acc = [v for v in self.assigned(s.body) if v in env and v not in loopnames]
        for v in loopnames:
            if v in self.assigned(s.body):
                raise Unsupported(s, "loop variable assigned in the body")
        has_break = own_break(s.body)
        # an empty list display gets its element type from the first append in the body
        if any(env[v] == LIST(NONE) for v in acc):
            stripped = [n for n in s.body if not self._is_break_if(n)]
            after = self.env_after(stripped, env_b)
            for v in acc:
                if env[v] == LIST(NONE):
                    env[v] = after[v]
                    env_b[v] = after[v]
        types = [env[v] for v in acc]
        if has_break:
            body = self.break_body(s.body, env_b, acc, i2, types)
            accpat = "'(" + ", ".join([cname(v) for v in acc] + ["broken_"]) + ")"
            init = "(" + ", ".join([cname(v) for v in acc] + ["false"]) + ")"
            keep = self.ret("(" + ", ".join([cname(v) for v in acc] + ["true"]) + ")")
            fbody = f"if broken_ then {keep} else\n{i2}{body}"
            respat = "'(" + ", ".join([cname(v) for v in acc] + ["_"]) + ")"
        else:
            body = self.block(s.body, env_b, acc, i2, False, types)
            accpat = self.pat_of(acc)
            init, _ = self.tuple_of(acc, env)
            fbody = body
            respat = self.pat_of(acc)
        # the loop variables are not visible after the loop (Python keeps them; a use is refused)
        env2 = {v: t for v, t in env.items() if v not in loopnames}
        kcode = self.block(rest, env2, outvars, ind, tail, outtypes)
        acc_t = [coq_of(t) for t in types] + (["bool"] if has_break else [])
        acc_ty = " * ".join(acc_t) if acc_t else "unit"
        def binder(pattern, name, ty):
            if pattern.startswith("'"):
                return f"({name} : {ty})", f"let {pattern} := {name} in "
            if pattern == "_":
                return f"(_ : {ty})", ""
            return f"({pattern} : {ty})", ""
        b1, l1 = binder(accpat, "acc_", acc_ty)
        b2, l2 = binder(pat, "it_", coq_of(elt))
        lam = f"(fun {b1} {b2} => {l1}{l2}\n{i2}{fbody})"
        if self.monadic:
            loop = f"ofold {lam} {it_code} {init}"
            return self.wrap(p, f"obind ({loop}) (fun {respat} =>\n{ind}{kcode})", ind)
        loop = f"fold_left {lam} {it_code} {init}"
        return self.wrap(p, f"let {respat} := {loop} in\n{ind}{kcode}", ind)


    def break_body(self, stmts, env, acc, ind, types):
        """loop body with `if c: break` statements at its top level"""
        env = dict(env)
        if not stmts:
            parts = [self.g.coerce(cname(v), env[v], t, self.fn.node) for v, t in zip(acc, types)] + ["false"]
            return self.ret("(" + ", ".join(parts) + ")")
        s, rest = stmts[0], stmts[1:]
        if isinstance(s, ast.If) and len(s.body) == 1 and isinstance(s.body[0], ast.Break) and not s.orelse:
            c = self.cond(s.test, env)
            p = self.take()
            parts = [self.g.coerce(cname(v), env[v], t, s) for v, t in zip(acc, types)] + ["true"]
            stop = self.ret("(" + ", ".join(parts) + ")")
            restc = self.break_body(rest, env, acc, ind + "  ", types)
            return self.wrap(p, f"if {c} then {stop} else\n{ind}{restc}", ind)
        if own_break([s]):
            raise Unsupported(s, "break that is not `if c: break` at the top of the loop body")
        marker = EA._BreakRest(rest, acc, types)
        return self.block([s, marker], env, None, ind, False)


    def bind_target(self, target, elt, env_b, s):
        if isinstance(target, ast.Name):
            env_b[target.id] = elt
        elif isinstance(target, ast.Tuple) and all(isinstance(e, ast.Name) for e in target.elts) \
                and elt.k == "tuple" and len(elt.a) == len(target.elts):
            for e, t in zip(target.elts, elt.a):
                env_b[e.id] = t
        else:
            raise Unsupported(s, "loop target")

    def iterable(self, node, env):
        if isinstance(node, ast.Call) and isinstance(node.func, ast.Name) and node.func.id == "reversed" \
                and len(node.args) == 1 and not node.keywords:
            c, t = self.ex(node.args[0], env)
            if t == SFS:
                return f"(sfs_reversed {c})", LIST(STR)
        if not (isinstance(node, ast.Call) and isinstance(node.func, ast.Name)
                and node.func.id in ("enumerate", "reversed", "range", "zip", "list")):
            c, t = self.ex(node, env)
            if t == SFS:
                return c, LIST(STR)
            if t.k != "list":
                raise Unsupported(node, f"iteration over a {t}")
            return c, t
        return super().iterable(node, env)

    # --------------------------------------------------------------- dict aliasing
    def alias_check(self, body):
        """Item stores / update are read functionally (a new value bound to the same name).  That is only right
        when no OTHER name holds the mutated object.  Accepted: dict locals made by a display or `.copy()`; an alias
        `x = y` between dict names only when x is never mutated and, if y is mutated somewhere, the alias is the last
        statement executed in the body of a `while` whose first statement re-binds y to a fresh display."""
        made, mutated, aliases = set(), set(), []

        def is_fresh(v):
            return isinstance(v, ast.Dict) or (isinstance(v, ast.Call) and isinstance(v.func, ast.Attribute)
                                               and v.func.attr == "copy" and not v.args)

        for n in body:
            for x in ast.walk(n):
                if isinstance(x, ast.Assign) and len(x.targets) == 1:
                    tg = x.targets[0]
                    if isinstance(tg, ast.Name) and is_fresh(x.value):
                        made.add(tg.id)
                    if isinstance(tg, ast.Subscript) and isinstance(tg.value, ast.Name):
                        mutated.add(tg.value.id)
                if isinstance(x, ast.Expr) and isinstance(x.value, ast.Call) and isinstance(x.value.func, ast.Attribute) \
                        and x.value.func.attr == "update" and isinstance(x.value.func.value, ast.Name):
                    mutated.add(x.value.func.value.id)
        # aliases between names in made
        def last_stmts(ss):
            if not ss:
                return []
            s = ss[-1]
            if isinstance(s, ast.If):
                return last_stmts(s.body) + last_stmts(s.orelse)
            return [s]

        def walk(ss, loop):
            for s in ss:
                if isinstance(s, ast.Assign) and len(s.targets) == 1 and isinstance(s.targets[0], ast.Name) \
                        and isinstance(s.value, ast.Name) and s.value.id in made:
                    x, y = s.targets[0].id, s.value.id
                    if x in mutated:
                        raise Unsupported(s, "alias of a dict that is mutated later")
                    if y in mutated:
                        ok = loop is not None and any(s is z for z in last_stmts(loop.body)) and loop.body \
                            and isinstance(loop.body[0], ast.Assign) and len(loop.body[0].targets) == 1 \
                            and isinstance(loop.body[0].targets[0], ast.Name) and loop.body[0].targets[0].id == y \
                            and isinstance(loop.body[0].value, ast.Dict)
                        if not ok:
                            raise Unsupported(s, "alias of a mutated dict (aliasing would be missed by the functional reading)")
                    aliases.append(x)
                if isinstance(s, ast.If):
                    walk(s.body, loop)
                    walk(s.orelse, loop)
                elif isinstance(s, ast.While):
                    walk(s.body, s)
                elif isinstance(s, (ast.For, ast.With)):
                    walk(s.body, None if isinstance(s, ast.For) else loop)

        walk(body, None)
        self.dict_locals = made

    # --------------------------------------------------------------- expressions
    def ex(self, node, env, want=None):
        g = self.g
        if isinstance(node, ast.Name) and node.id in self.maybe_unbound and node.id in env and env[node.id].k == "option":
            return self.unwrap(cname(node.id), env[node.id], node)
        if isinstance(node, ast.Constant) and isinstance(node.value, float):
            raise Unsupported(node, "float constant")
        if isinstance(node, ast.BoolOp) and isinstance(node.op, ast.Or):
            nt = self.none_test_any(node.values[0], env)
            if nt and not nt[1] and len(node.values) >= 2:
                v = nt[0]
                env2 = dict(env)
                env2[v] = env[v].a[0]
                saved, self.pending = self.pending, []
                restn = node.values[1] if len(node.values) == 2 else ast.BoolOp(op=ast.Or(), values=node.values[1:])
                r, t = self.ex(restn, env2)
                if t != BOOL:
                    raise Unsupported(node, "or on non-bool")
                inner = self.flush(f"Some {r}", "    ") if self.pending else None
                self.pending = saved
                if inner is not None:
                    # the right operand may raise: only evaluated when the left one is false
                    return self.partial_op(f"(match {cname(v)} with None => Some true | Some {cname(v)} => {inner} end)", node), BOOL
                return f"(match {cname(v)} with None => true | Some {cname(v)} => {r} end)", BOOL
        if isinstance(node, ast.BoolOp):
            return self.boolop(node, env)
        if isinstance(node, ast.Dict):
            if not node.keys:
                if want is not None and want.k == "dict":
                    return "[]", want
                return "[]", DICT(UNKNOWN, UNKNOWN)
            if len(node.keys) != 1 or node.keys[0] is None:
                raise Unsupported(node, "dict display (only {} and {k: v})")
            kc, kt = self.ex(node.keys[0], env)
            vc, vt = self.ex(node.values[0], env)
            return f"[({kc}, {vc})]", DICT(kt, vt)
        if isinstance(node, ast.List) and isinstance(node.ctx, ast.Load) and node.elts \
                and not any(isinstance(e, ast.Starred) for e in node.elts):
            parts = [self.ex(e, env) for e in node.elts]
            if any(t.k == "option" for _, t in parts):
                # None stored in a list of objects raises at its first use; here at once (see unwrap)
                parts = [self.unwrap(c, t, node) for c, t in parts]
                et = parts[0][1]
                for _, t in parts[1:]:
                    et = g.join(et, t, node)
                return "[" + "; ".join(g.coerce(c, t, et, node) for c, t in parts) + "]", LIST(et)
        if isinstance(node, ast.Subscript) and isinstance(node.slice, ast.Constant) and isinstance(node.slice.value, int):
            v, tv = self.ex(node.value, env)
            if tv.k == "tuple":
                i = node.slice.value
                if not (0 <= i < len(tv.a)):
                    raise Unsupported(node, "tuple index")
                names = ["_"] * len(tv.a)
                names[i] = "p_"
                return f"(let '({', '.join(names)}) := {v} in p_)", tv.a[i]
            if tv.k == "list":
                r = self.partial_op(f"(py_getitem {v} ({i if (i := node.slice.value) >= 0 else i})%Z)", node)
                return r, tv.a[0]
        if isinstance(node, ast.BinOp) and isinstance(node.op, ast.BitOr):
            a, ta = self.ex(node.left, env)
            b, tb = self.ex(node.right, env)
            if ta.k == "list" and ta == tb:
                return f"(set_union {g.eqb(ta.a[0], node)} {a} {b})", ta
            raise Unsupported(node, "| (only on two sets of the same type)")
        return super().ex(node, env, want)

    def none_test_any(self, test, env):
        if isinstance(test, ast.Compare) and len(test.ops) == 1 and isinstance(test.left, ast.Name) \
                and isinstance(test.comparators[0], ast.Constant) and test.comparators[0].value is None \
                and isinstance(test.ops[0], (ast.Is, ast.IsNot)):
            v = test.left.id
            if v in env and env[v].k == "option":
                return v, isinstance(test.ops[0], ast.IsNot)
        return None

    def boolop(self, node, env):
        """and/or: as extra_append, but an operand that may raise is accepted: the rest is then evaluated inside the
        option monad only when reached (short circuit kept)"""
        is_and = isinstance(node.op, ast.And)
        saved, self.pending = self.pending, []

        def conj(values, env_):
            # returns (code, partial?) ; code : bool or option bool
            v = values[0]
            nt = self.none_test_any(v, env_) if is_and else None
            if nt and nt[1]:
                env2 = dict(env_)
                env2[nt[0]] = env_[nt[0]].a[0]
                if len(values) == 1:
                    return f"match {cname(nt[0])} with Some _ => true | None => false end", False
                r, part = conj(values[1:], env2)
                none = "Some false" if part else "false"
                return f"match {cname(nt[0])} with Some {cname(nt[0])} => {r} | None => {none} end", part
            self.pending = []
            c, t = self.ex(v, env_)
            if t != BOOL:
                raise Unsupported(v, "and/or on non-bool values")
            p = self.take()
            if len(values) == 1:
                if p:
                    return self.wrap(p, f"Some {c}", "    "), True
                return c, False
            r, part = conj(values[1:], env_)
            if not p and not part:
                return f"({c} {'&&' if is_and else '||'} {r})", False
            rr = r if part else f"Some ({r})"
            short = "Some false" if is_and else "Some true"
            body = f"(if {c} then {rr if is_and else short} else {short if is_and else rr})"
            return self.wrap(p, body, "    "), True

        code, part = conj(list(node.values), env)
        self.pending = saved
        if part:
            return self.partial_op(f"({code})", node), BOOL
        return f"({code})", BOOL

    def attribute(self, node, env):
        g = self.g
        if isinstance(node.value, ast.Name) and node.value.id not in env:
            return super().attribute(node, env)
        v, t = self.ex(node.value, env)
        a = node.attr
        if t.k == "option" and t.a[0].k in ("rec",):
            v, t = self.unwrap(v, t, node)
        if t == GRAPH:
            if a == "next":
                return self.partial_op(f"(ig_next {v})", node), GRAPH
            raise Unsupported(node, f"attribute {a} of a graph node whose class is not known")
        if t == DEFN:
            if a == "output_variable":
                return self.partial_op(f"(conv_tensor (IgDefinition_output_variable {v}))", node), REC("Tensor")
            if a == "formats":
                return f"(IgDefinition_formats {v})", DICT(STR, FMT)
            if a == "indexes":
                return f"(IgDefinition_indexes {v})", DICT(STR, TD)
        if t == FMT and a == "modes":
            return f"(conv_format_modes {v})", LIST(MODE)
        if t == TD and a in ("name", "dimension"):
            g.check_td_fields()
            return f"(GlueGen.TensorDimension_{a} {v})", STR if a == "name" else Z
        if t == KT and a == "name":
            return f"(KernelType_name {v})", STR
        # delegate with the (possibly unwrapped) receiver bound to a temporary name
        tmp = "__recv"
        env2 = dict(env)
        env2[tmp] = t
        n0 = len(self.pending)
        code, rt = super().attribute(ast.copy_location(ast.Attribute(value=ast.Name(id=tmp, ctx=ast.Load()), attr=a, ctx=ast.Load()), node), env2)
        return self.subst(n0, tmp, v, code), rt

    # --------------------------------------------------------------- calls
    def apply(self, fn, args, node):
        if getattr(fn, "uses_rec", False):
            if self.node_cls is None:
                raise Unsupported(node, "a function of the dispatch family called from outside it")
            self.uses_rec = True
            args = ["rec_"] + args
        if getattr(fn, "uses_fuel", False):
            self.uses_fuel = True
            args = ["fuel_"] + args
        return super().apply(fn, args, node)

    def with_recv(self, node, rc, rt, env):
        """re-run `call` with the receiver expression replaced by a temporary of type rt"""
        tmp = "__recv"
        env2 = dict(env)
        env2[tmp] = rt
        n2 = copy.copy(node)
        n2.func = ast.copy_location(ast.Attribute(value=ast.Name(id=tmp, ctx=ast.Load()), attr=node.func.attr, ctx=ast.Load()), node.func)
        n0 = len(self.pending)
        code, t = self.call(n2, env2)
        return self.subst(n0, tmp, rc, code), t

    def call(self, node, env):
        g = self.g
        f = node.func
        if isinstance(f, ast.Name) and f.id not in env:
            n = f.id
            if n == g.graph_family:
                if node.keywords or len(node.args) != 3:
                    raise Unsupported(node, "arguments of the dispatch function")
                want = [GRAPH, REC("Output"), KT]
                args = []
                for a, w in zip(node.args, want):
                    c, t = self.ex(a, env)
                    args.append(g.coerce(c, t, w, node))
                if self.node_cls is not None:
                    self.uses_rec = True
                    return self.partial_op(f"(rec_ {' '.join(args)})", node), SB
                if not g.family_emitted:
                    raise Unsupported(node, "dispatch function used before it is defined")
                self.uses_fuel = True
                return self.partial_op(f"({n} fuel_ fuel_ {' '.join(args)})", node), SB
            if n == "to_ir":
                fn = g.need(("fn", "to_ir"), node)
                return self.call_fn(fn, None, node, env)
            if n == "Integer" and len(node.args) == 1 and not node.keywords:
                c, t = self.ex(node.args[0], env)
                if t != Z:
                    raise Unsupported(node, "Integer of a non-int")
                return f"(IdInteger {c})", IDX
            if n == "isinstance" and len(node.args) == 2 and not node.keywords and isinstance(node.args[1], ast.Name):
                c, t = self.ex(node.args[0], env)
                cls = node.args[1].id
                if t == REC("Output") and cls in ("AppendOutput", "BucketOutput"):
                    ctor = "OutAppend" if cls == "AppendOutput" else "OutBucket"
                    return f"(match {c} with {ctor} _ => true | _ => false end)", BOOL
                raise Unsupported(node, "isinstance (only of an Output against AppendOutput / BucketOutput)")
            if n == "set" and not node.args and not node.keywords:
                return "[]", LIST(UNKNOWN)
            if n == "float" and len(node.args) == 1 and not node.keywords:
                c, t = self.ex(node.args[0], env)
                if t != Z:
                    raise Unsupported(node, "float of a non-int")
                return f"(Z2F {c})", FL
            if n == "len" and len(node.args) == 1 and not node.keywords:
                c, t = self.ex(node.args[0], env)
                if t.k in ("dict", "sfs"):
                    return f"(Z.of_nat (List.length {c}))", Z
                tmp = "__len"
                env2 = dict(env)
                env2[tmp] = t
                n0 = len(self.pending)
                code, rt = super().call(ast.copy_location(ast.Call(func=f, args=[ast.Name(id=tmp, ctx=ast.Load())], keywords=[]), node), env2)
                return self.subst(n0, tmp, c, code), rt
            if n == "sorted":
                return self.sorted_call(node, env)
            if n == "reduce" and not node.keywords:
                r = self.reduce_call(node, env)
                if r is not None:
                    return r
            if n in g.U.ctors and g.U.ctors[n].ind == "function_definition":
                code, _ = self.ir_ctor(n, node, env)
                return code, FD
        if isinstance(f, ast.Attribute) and not (isinstance(f.value, ast.Name) and f.value.id not in env):
            rc, rt = self.ex(f.value, env)
            m = f.attr
            if rt.k == "option" and rt.a[0].k == "rec":
                rc, rt = self.unwrap(rc, rt, node)
                return self.with_recv(node, rc, rt, env)
            if rt == GRAPH:
                if m not in GRAPH_METHODS:
                    raise Unsupported(node, f"method {m} of a graph node")
                coq, pts, ret, part = GRAPH_METHODS[m]
                if node.keywords or len(node.args) != len(pts):
                    raise Unsupported(node, "arguments")
                args = [rc]
                for a, w in zip(node.args, pts):
                    c, t = self.ex(a, env)
                    args.append(g.coerce(c, t, w, node))
                code = f"({coq} {' '.join(args)})"
                return (self.partial_op(code, node) if part else code), ret
            if rt == SB and m == "finalize" and not node.args and not node.keywords:
                if isinstance(f.value, ast.Name) and f.value.id in self.open_builders:
                    raise Unsupported(node, "finalize of a builder inside its own `with`")
                return f"(sb_finalize {rc})", CLS("stmt", "Block")
            if rt.k == "dict" and not node.args and not node.keywords:
                if m == "items":
                    return rc, LIST(TUP(list(rt.a)))
                if m == "keys":
                    return f"(map fst {rc})", LIST(rt.a[0])
                if m == "values":
                    return f"(map snd {rc})", LIST(rt.a[1])
                if m == "copy":
                    return rc, rt
            if rt.k == "list" and m == "issubset" and len(node.args) == 1 and not node.keywords:
                c, t = self.ex(node.args[0], env)
                if t != rt:
                    raise Unsupported(node, "issubset of sets of different types")
                return f"(set_issubset {g.eqb(rt.a[0], node)} {rc} {c})", BOOL
            if rt == REC("Output"):
                key = ("rec", "Output", m)
                if key in g.fns:
                    fn = g.need(key, node)
                    return self.call_fn(fn, (rc, rt), node, env)
                raise Unsupported(node, f"method {m} of an Output")
            if rt.k == "rec" and rt.a[0] in ("AppendOutput", "BucketOutput") and ("rec", rt.a[0], m) not in g.fns \
                    and ("rec", "Output", m) in g.fns and not getattr(g.fns[("rec", "Output", m)], "dispatcher", False):
                fn = g.need(("rec", "Output", m), node)
                return self.call_fn(fn, (g.coerce(rc, rt, REC("Output"), node), REC("Output")), node, env)
            if f.value.__class__ is not ast.Name or f.value.id != "__recv":
                return self.with_recv(node, rc, rt, env)
        return super().call(node, env)

    def call_fn(self, fn, recv, node, env):
        """as extra_append, plus: an optional value passed where the object is required is unwrapped"""
        params = list(fn.params)
        if recv is not None:
            params = params[1:]
        n2 = node
        fixed = False
        new_args = list(node.args)
        for i, a in enumerate(node.args):
            if i < len(params) and not isinstance(a, ast.Starred) and params[i][1].k != "option":
                saved = list(self.pending)
                c, t = self.ex(a, env, want=params[i][1])
                if t.k == "option" and t.a[0] != NONE:
                    uc, ut = self.unwrap(c, t, node)
                    tmp = f"__arg{i}"
                    env = dict(env)
                    env[tmp] = ut
                    self._arg_subst = getattr(self, "_arg_subst", {})
                    self._arg_subst[tmp] = uc
                    new_args[i] = ast.copy_location(ast.Name(id=tmp, ctx=ast.Load()), a)
                    fixed = True
                else:
                    self.pending = saved
        if fixed:
            n2 = copy.copy(node)
            n2.args = new_args
            n0 = len(self.pending)
            code, t = super().call_fn(fn, recv, n2, env)
            for tmp, uc in self._arg_subst.items():
                code = self.subst(n0, tmp, uc, code)
            return code, t
        return super().call_fn(fn, recv, node, env)

    def sorted_call(self, node, env):
        """sorted(xs, key=lambda x: <int>, reverse=True): the keys are computed first, left to right (they may raise),
        then a stable descending sort"""
        g = self.g
        kws = {k.arg: k.value for k in node.keywords}
        if len(node.args) != 1 or set(kws) != {"key", "reverse"} or not (isinstance(kws["reverse"], ast.Constant) and kws["reverse"].value is True):
            raise Unsupported(node, "sorted (only sorted(xs, key=lambda, reverse=True))")
        lam = kws["key"]
        if not (isinstance(lam, ast.Lambda) and len(lam.args.args) == 1 and not lam.args.defaults):
            raise Unsupported(node, "sort key (only a lambda of one parameter)")
        xs, tx = self.iterable(node.args[0], env)
        env2 = dict(env)
        x = lam.args.args[0].arg
        env2[x] = tx.a[0]
        saved, self.pending = self.pending, []
        kc, kt = self.ex(lam.body, env2)
        if kt != Z:
            raise Unsupported(node, "sort key that is not an int")
        if self.pending:
            body = self.flush(f"Some ({kc}, {cname(x)})", "    ")
            self.pending = saved
            keyed = self.partial_op(f"(omap (fun {cname(x)} => {body}) {xs})", node)
        else:
            self.pending = saved
            keyed = f"(map (fun {cname(x)} => ({kc}, {cname(x)})) {xs})"
        return f"(map snd (py_sorted_desc {keyed}))", tx

    def reduce_call(self, node, env):
        g = self.g
        E = CLS("expr", "Expression")
        if len(node.args) == 2 and isinstance(node.args[0], ast.Name) and node.args[0].id in g.U.ctors \
                and g.U.ctors[node.args[0].id].ind == "expr" \
                and [ft for _, ft in g.U.ctors[node.args[0].id].fields] == ["expr", "expr"]:
            xs, tx = self.ex(node.args[1], env)
            xs = g.coerce(xs, tx, LIST(E), node)
            return self.partial_op(f"(py_reduce {g.U.ctors[node.args[0].id].coq} {xs})", node), E
        if len(node.args) == 3 and isinstance(node.args[0], ast.Lambda):
            lam = node.args[0]
            if len(lam.args.args) != 2 or lam.args.defaults:
                raise Unsupported(node, "reduce lambda")
            xs, tx = self.iterable(node.args[1], env)
            i0, ti = self.ex(node.args[2], env)
            a, b = lam.args.args[0].arg, lam.args.args[1].arg
            env2 = dict(env)
            # the accumulator type: the declared return type when the initial value is one of its subclasses
            acc_t = ti
            if self.declared is not None and ti.k == "cls" and self.declared.k == "cls" and ti.a[0] == self.declared.a[0]:
                acc_t = self.declared
            env2[a] = acc_t
            env2[b] = tx.a[0]
            saved, self.pending = self.pending, []
            bc, bt = self.ex(lam.body, env2)
            if self.pending:
                raise Unsupported(node, "an operation that can raise inside a lambda")
            self.pending = saved
            bc = g.coerce(bc, bt, acc_t, node)
            i0 = g.coerce(i0, ti, acc_t, node)
            return f"(fold_left (fun {cname(a)} {cname(b)} => {bc}) {xs} {i0})", acc_t
        return None


# ------------------------------------------------------------------------------------------------
# GGen: remaining methods (added here to keep the class above short)
# ------------------------------------------------------------------------------------------------


def _node_field_type(self, an):
    src = ast.unparse(an)
    table = {"str": STR, "Expression": IDX, "IterationGraph": GRAPH, "list[IterationGraph]": LIST(GRAPH),
             "TensorLayer | None": OPT(REC("TensorLayer"))}
    if src not in table:
        raise Unsupported(an, "field annotation of a node class")
    return table[src]


def _check_td_fields(self):
    pass  # the projections GlueGen.TensorDimension_name / _dimension exist or the file does not compile


GGen.node_field_type = _node_field_type
GGen.check_td_fields = _check_td_fields
GGen.family_emitted = False


def gen_to_ir(g: GGen):
    """identifiable_expression/_to_ir.py: the singledispatch family to_ir as one structural Fixpoint on id_expr"""
    fams = {}
    base = None
    for node in g.toir_tree.body:
        if isinstance(node, ast.FunctionDef):
            decs = [ast.unparse(d) for d in node.decorator_list]
            if decs == ["singledispatch"]:
                if node.name != "to_ir" or base is not None:
                    raise Unsupported(node, "unexpected singledispatch base in _to_ir.py")
                base = node
                if not (len(node.body) == 1 and isinstance(node.body[0], ast.Raise)):
                    raise Unsupported(node, "the base of to_ir must only raise")
            elif len(decs) == 1 and decs[0].startswith("to_ir.register(") and decs[0].endswith(")"):
                fams[decs[0][len("to_ir.register("):-1]] = node
            else:
                raise Unsupported(node, "function in _to_ir.py")
        elif isinstance(node, ast.ImportFrom):
            want = {"functools": {"singledispatch"}, "ir": {"ast"}, "ast": {"Add", "Expression", "Float", "Integer", "Multiply", "Tensor"}}
            if node.module not in want or {a.name for a in node.names} != want[node.module]:
                raise Unsupported(node, "import block of _to_ir.py changed")
            for a in node.names:
                if a.asname not in (None, "ir"):
                    raise Unsupported(node, "renaming import in _to_ir.py")
        elif isinstance(node, ast.Assign) and all(isinstance(t, ast.Name) and t.id == "__all__" for t in node.targets):
            continue
        elif isinstance(node, ast.Expr) and isinstance(node.value, ast.Constant):
            continue
        else:
            raise Unsupported(node, "module-level statement of _to_ir.py")
    ie = g.ie_classes
    concrete = [c for c, k in ie.items() if k.is_dataclass]
    if set(fams) != set(concrete):
        raise Unsupported(ast.Constant(sorted(fams)), "to_ir must be registered for exactly the classes of identifiable_expression/ast.py")
    arms = []
    ftypes = {"int": Z, "float": FL, "str": STR, "Expression": IDX, "tuple[str, ...]": LIST(STR), "tuple[Mode, ...]": LIST(MODE)}
    for cls in concrete:
        k = ie[cls]
        node = fams[cls]
        if len(node.args.args) != 1 or node.args.args[0].arg != "self":
            raise Unsupported(node, "signature")
        flds = [f for f, _, _ in k.fields]
        body = [s for s in copy.deepcopy(node.body) if not (isinstance(s, ast.Expr) and isinstance(s.value, ast.Constant))]
        # a function-level `from .._names import a, b` of names already known from gen/Names.v
        keep = []
        for s in body:
            if isinstance(s, ast.ImportFrom):
                if s.module != "_names" or s.level != 2 or any(a.asname for a in s.names) or any(("names", a.name) not in g.fns for a in s.names):
                    raise Unsupported(s, "local import")
                continue
            keep.append(s)
        body = [_SelfFields(flds).visit(s) for s in keep]
        if len(body) != 1 or not isinstance(body[0], ast.Return) or body[0].value is None:
            raise Unsupported(node, "arm of to_ir (only `return <expression>`)")
        env = {}
        for f, an, _ in k.fields:
            src = ast.unparse(an)
            if src not in ftypes:
                raise Unsupported(an, "field annotation")
            env["self_" + f] = ftypes[src]
        # properties of the class (Tensor.order): len(self.indexes)
        fake = Fn(("fn", "to_ir"), "to_ir", node, None)
        fake.params = []
        fb = ToIrBody(g, fake, False)
        fb.cls = cls
        fb.klass = k
        code, t = fb.ex(body[0].value, env)
        if fb.pending:
            raise Unsupported(node, "an arm of to_ir that can raise")
        code = g.coerce(code, t, CLS("expr", "Expression"), node)
        pat = " ".join("self_" + f for f in flds)
        arms.append(f"  | Id{cls} {pat} =>\n    {code}")
    g.out.append("(* identifiable_expression/_to_ir.py *)\nFixpoint to_ir (self : id_expr) {struct self} : expr :=\n  match self with\n"
                 + "\n".join(arms) + "\n  end.\n")
    fn = Fn(("fn", "to_ir"), "to_ir", base, None)
    fn.params = [("self", IDX, None)]
    fn.ret = CLS("expr", "Expression")
    fn.done = True
    g.fns[("fn", "to_ir")] = fn


class ToIrBody(GBody):
    cls = None
    klass = None

    def call(self, node, env):
        f = node.func
        if isinstance(f, ast.Name) and f.id == "to_ir":
            if len(node.args) != 1 or node.keywords or not (isinstance(node.args[0], ast.Name) and node.args[0].id.startswith("self_")
                                                            and env.get(node.args[0].id) == IDX):
                raise Unsupported(node, "recursive call of to_ir (only on a field of self)")
            return f"(to_ir {node.args[0].id})", CLS("expr", "Expression")
        if isinstance(f, ast.Attribute) and isinstance(f.value, ast.Name) and f.value.id == "ir" and f.attr in self.g.U.ctors \
                and self.g.U.ctors[f.attr].ind == "expr":
            return self.ir_ctor(f.attr, node, env)
        return super().call(node, env)

    def attribute(self, node, env):
        # self.order: a property of the class
        if isinstance(node.value, ast.Name) and node.value.id == "self":
            m = self.klass.methods.get(node.attr)
            if m is not None and [ast.unparse(d) for d in m.decorator_list] == ["property"] and len(m.body) == 1 \
                    and isinstance(m.body[0], ast.Return):
                flds = [f for f, _, _ in self.klass.fields]
                e = _SelfFields(flds).visit(copy.deepcopy(m.body[0].value))
                return self.ex(e, env)
            raise Unsupported(node, "attribute of self")
        return super().attribute(node, env)


def gen_output_methods(g: GGen):
    """outputs/_base.py: the concrete methods of Output (on the sum type), and dispatchers for the abstract ones"""
    k = parse_classes(g.base_tree)["Output"]
    for m, node in k.methods.items():
        abstract = any(ast.unparse(d) == "abstractmethod" for d in node.decorator_list)
        if abstract:
            fa, fb = g.fns.get(("rec", "AppendOutput", m)), g.fns.get(("rec", "BucketOutput", m))
            if fa is None or fb is None or not (fa.done and fb.done):
                raise Unsupported(node, "abstract method of Output without the two translated implementations")
            if [(n, t) for n, t, _ in fa.params[1:]] != [(n, t) for n, t, _ in fb.params[1:]]:
                raise Unsupported(node, "the two implementations take different parameters")
            rt = g.join(fa.ret, fb.ret, node)
            partial = fa.partial or fb.partial
            cap = fa.uses_cap or fb.uses_cap
            ps = "".join(f" ({cname(n)} : {coq_of(t)})" for n, t, _ in fa.params[1:])
            names = " ".join(cname(n) for n, _, _ in fa.params[1:])

            def arm(fn, var):
                c = f"({fn.coq}{' initial_capacity' if fn.uses_cap else ''} {var} {names})"
                if fn.partial:
                    if fn.ret != rt:
                        return f"obind {c} (fun r_ => Some {g.coerce('r_', fn.ret, rt, node)})"
                    return c
                c = g.coerce(c, fn.ret, rt, node)
                return f"Some {c}" if partial else c

            g.out.append(f"Definition Output_{m}{' (initial_capacity : option Z)' if cap else ''} (self : Output){ps} : "
                         f"{'(option ' + coq_of(rt) + ')' if partial else coq_of(rt)} :=\n"
                         f"  match self with\n  | OutAppend a_ => {arm(fa, 'a_')}\n  | OutBucket b_ => {arm(fb, 'b_')}\n  end.\n")
            fn = Fn(("rec", "Output", m), f"Output_{m}", node, "Output")
            fn.params = [("self", REC("Output"), None)] + list(fa.params[1:])
            fn.ret, fn.partial, fn.uses_cap, fn.done = rt, partial, cap, True
            fn.dispatcher = True
            g.fns[("rec", "Output", m)] = fn
        else:
            g.register(("rec", "Output", m), f"Output_{m}", node, owner="Output")


def gen_genir(src: Path) -> str:
    g = GGen(src)
    g.has_default_array_size = False
    # ---- phase 1: replay extra_append's driver to learn the signatures of gen/AppendGen.v; its text must be
    #      exactly what extra_append generates (then the definitions are imported, not repeated)
    reference = EA.gen_append(src)
    replay_append_driver(g)
    if "\n".join(g.out) != reference:
        raise Unsupported(ast.Constant("AppendGen.v"), "internal: the replayed driver of extra_append.py does not reproduce gen/AppendGen.v")
    g.out = []
    g.in_prefix = False
    out = g.out
    out.append(PRELUDE.format(
        src="src/tensora/iteration_graph/_generate_ir.py, iteration_graph/outputs/_base.py, "
            "iteration_graph/identifiable_expression/_to_ir.py (+ pinned: iteration_graph/iteration_graph.py node classes, "
            "Context, StableFrozenSet) by tools/py2coq/extra_genir.py"))
    out.append("From TV Require Import spec.PyLib model.GraphsIter.\nOpen Scope string_scope.\n\n"
               "From TV Require Import gen.IRAst gen.Names gen.ExhaustAst gen.Exhaust gen.IterGraphs gen.GlueGen.\n"
               "From TV Require Import gen.AppendGen.\n")
    out.append("(* pinned classes: " + ", ".join(f"{k} {v}" for k, v in g.pin_report.items()) + " *)")
    # conversions generated from the field list of the class Tensor
    tf = [f for f, _, _ in g.ie_classes["Tensor"].fields]
    rf = [f for f, _ in g.records["Tensor"]]
    if tf != rf:
        raise Unsupported(ast.Constant(tf), "fields of Tensor")
    conv = ("Definition conv_tensor (e : id_expr) : option Tensor :=\n  match e with\n  | IdTensor " + " ".join(f + "_" for f in tf)
            + " => Some (MkTensor " + " ".join((f"(map conv_mode {f}_)" if dict(g.records['Tensor'])[f] == LIST(MODE) else f + "_") for f in tf)
            + ")\n  | _ => None\n  end.")
    kt = ("Definition KernelType_name (k : KernelType) : string :=\n  match k with\n"
          + "\n".join(f"  | KernelType_{m} => {cstr(m)}" for m in g.enums["KernelType"]) + "\n  end.")
    out.append(SUPPORT.replace("@@CONV_TENSOR@@", conv).replace("@@KT_NAME@@", kt))
    # ---- phase 2: the new functions
    gen_to_ir(g)
    gen_output_methods(g)
    funcs = {}
    family = {}
    base = None
    for node in g.gi_tree.body:
        if isinstance(node, ast.FunctionDef):
            decs = [ast.unparse(d) for d in node.decorator_list]
            if decs == ["singledispatch"]:
                if base is not None:
                    raise Unsupported(node, "second singledispatch base")
                base = node
            elif len(decs) == 1 and base is not None and decs[0].startswith(base.name + ".register(") and decs[0].endswith(")"):
                family[decs[0][len(base.name) + len(".register("):-1]] = node
            elif not decs:
                funcs[node.name] = node
            else:
                raise Unsupported(node, "decorator")
        elif isinstance(node, (ast.ImportFrom,)):
            continue
        elif isinstance(node, ast.Assign) and all(isinstance(t, ast.Name) and t.id == "__all__" for t in node.targets):
            continue
        elif isinstance(node, ast.Expr) and isinstance(node.value, ast.Constant):
            continue
        else:
            raise Unsupported(node, "module-level statement of _generate_ir.py")
    if base is None or not (len(base.body) == 1 and isinstance(base.body[0], ast.Raise)):
        raise Unsupported(ast.Constant("to_ir_iteration_graph"), "singledispatch base (must only raise)")
    if [a.arg for a in base.args.args] != ["self", "output", "kernel_type"]:
        raise Unsupported(base, "signature of the dispatch function")
    if set(family) != set(NODE_CTOR) or set(g.node_classes) - {"IterationGraph"} != set(NODE_CTOR):
        raise Unsupported(ast.Constant(sorted(family)), "the dispatch function must be registered for exactly the three node classes")
    if set(funcs) != {"generate_subgraphs", "generate_ir"}:
        raise Unsupported(ast.Constant(sorted(funcs)), "unexpected plain functions in _generate_ir.py")
    g.graph_family = base.name
    for n, node in funcs.items():
        g.register(("fn", n), "generate_ir_fuel" if n == "generate_ir" else n, node)
    g.need(("fn", "generate_subgraphs"), funcs["generate_subgraphs"])
    members = {}
    for cls in NODE_CTOR:  # source order of the classes does not matter; each is a separate Definition
        node = family[cls]
        if [a.arg for a in node.args.args] != ["self", "output", "kernel_type"]:
            raise Unsupported(node, "signature of a registered function")
        key = ("fn", node.name)
        g.register(key, node.name, node)
        fn = g.fns[key]
        fn.node_cls = cls
        fn.declared = SB
        g.need(key, node)
        if fn.ret != SB or not fn.partial:
            raise Unsupported(node, "a registered function must return a SourceBuilder")
        members[cls] = fn
    if any(fn.uses_cap for fn in members.values()):
        raise Unsupported(base, "internal: capacity hook inside the dispatch family")
    arms = []
    for cls, fn in members.items():
        k = g.node_classes[cls]
        args = ("fuel_ " if getattr(fn, "uses_fuel", False) else "") + ("rec_ " if getattr(fn, "uses_rec", False) else "")
        arms.append(f"    | {NODE_CTOR[cls]} {' '.join('_' for _ in k.fields)} => {fn.coq} {args}self output kernel_type")
    out.append(f"(* the singledispatch family: fuel_ bounds the `while True` of generate_subgraphs, n_ the depth of the recursion\n"
               f"   (through exhausted sub-graphs, so not structural); out of fuel = None *)\n"
               f"Fixpoint {base.name} (fuel_ : nat) (n_ : nat) (self : ig_graph) (output : Output) (kernel_type : KernelType) {{struct n_}} : option sb :=\n"
               f"  match n_ with\n  | O => None\n  | S n'_ =>\n    let rec_ := fun g_ o_ k_ => {base.name} fuel_ n'_ g_ o_ k_ in\n"
               f"    match self with\n" + "\n".join(arms) + "\n    end\n  end.\n")
    g.family_emitted = True
    fn = g.need(("fn", "generate_ir"), funcs["generate_ir"])
    if not (fn.partial and fn.uses_cap and getattr(fn, "uses_fuel", False) and fn.ret == FD
            and [t for _, t, _ in fn.params] == [DEFN, GRAPH, KT]):
        raise Unsupported(funcs["generate_ir"], "internal: unexpected interface of generate_ir")
    out.append("(* the entry point with the fuel that is always enough (design.d/TIE_genir.md) and GlueGen's KernelType *)\n"
               "Definition generate_ir (initial_capacity : option Z) (definition : IgDefinition) (graph : ig_graph) (kernel_type : GlueGen.KernelType)\n"
               "  : option function_definition :=\n"
               "  generate_ir_fuel initial_capacity (ig_fuel graph) definition graph (conv_kernel_type kernel_type).\n\n"
               "(* as the Section variable of gen/GlueGen.v's generate_module_tensora wants it *)\n"
               "Definition generate_ir_pres (initial_capacity : option Z) (d : IgDefinition) (g : ig_graph) (k : GlueGen.KernelType) : pres function_definition :=\n"
               "  r_of_opt \"Exception\" (generate_ir initial_capacity d g k).\n")
    return "\n".join(out)


def replay_append_driver(g: GGen):
    """the body of extra_append.gen_append after `g = Gen(src)` (kept textually close to it)"""
    out = g.out
    out.append(PRELUDE.format(
        src="src/tensora/ir/ast.py (helper methods), kernel_type.py, format/_format.py (Mode), "
            "iteration_graph/identifiable_expression/{ast.py (Tensor), _tensor_layer.py}, iteration_graph/_write_sparse_ir.py, "
            "iteration_graph/outputs/{_append.py, _bucket.py}"))
    out.append("From TV Require Import spec.PyLib.\nOpen Scope string_scope.\n\nFrom TV Require Import gen.IRAst gen.Names.\n")
    out.append(f"(* ir/_builder.py AST hash {g.builder_hash} *)")
    out.append(EA.SUPPORT)
    g.emit_enum(g.fmt_tree, "Mode", "Mode")
    kt_methods = g.emit_enum(g.kt_tree, "KernelType", "KernelType")
    for m, node in kt_methods.items():
        if m.startswith("__"):
            continue
        g.register(("rec", "KernelType", m), f"KernelType_{m}", node, owner="KernelType")
    g.emit_record("Tensor", g.ie_classes["Tensor"])
    for m, node in g.ie_classes["Tensor"].methods.items():
        g.register(("rec", "Tensor", m), f"Tensor_{m}", node, owner="Tensor")
    tl = g.tl_classes["TensorLayer"]
    g.emit_record("TensorLayer", tl)
    for m, node in tl.methods.items():
        g.register(("rec", "TensorLayer", m), f"TensorLayer_{m}", node, owner="TensorLayer")
    for n, node in EA.functions_of(g.names_tree).items():
        fn = Fn(("names", n), n, node, None)
        fn.params = [(a.arg, g.ann(a.annotation), None) for a in node.args.args]
        fn.ret = g.ann(node.returns)
        fn.done = True
        g.fns[("names", n)] = fn
    irfuncs = EA.functions_of(g.irast_tree)
    if "to_expression" not in irfuncs:
        raise Unsupported(ast.Constant("to_expression"), "not found in ir/ast.py")
    g.fns[("ir", None, "to_expression")] = Fn(("ir", None, "to_expression"), "to_expression", irfuncs["to_expression"], None)
    EA.gen_to_expression(g, irfuncs["to_expression"])
    for cls, k in g.irclasses.items():
        if g.ir_ind(cls) not in ("expr", "stmt"):
            continue
        for m, node in k.methods.items():
            g.register(("ir", cls, m), f"{cls}_{m}", node, owner=cls, static=EA.is_static(node))
    wsi = EA.functions_of(g.wsi_tree)
    for n, node in wsi.items():
        g.register(("fn", n), n, node)
    EA.gen_default_array_size(g)
    ao = parse_classes(g.append_tree)["AppendOutput"]
    bo = parse_classes(g.bucket_tree)["BucketOutput"]
    g.emit_record("AppendOutput", ao)
    g.emit_record("BucketOutput", bo)
    out.append("Inductive Output : Type := OutAppend (o : AppendOutput) | OutBucket (o : BucketOutput).\n")
    out.append("Definition Output_output (o : Output) : Tensor :=\n"
               "  match o with OutAppend a => AppendOutput_output a | OutBucket b => BucketOutput_output b end.\n")
    g.records["Output"] = []
    g._out_sum = True
    for m, node in ao.methods.items():
        g.register(("rec", "AppendOutput", m), f"AppendOutput_{m}", node, owner="AppendOutput")
    for m, node in bo.methods.items():
        if m == "__init__":
            continue
        g.register(("rec", "BucketOutput", m), f"BucketOutput_{m}", node, owner="BucketOutput")
    EA.gen_bucket_init(g, bo.methods.get("__init__"))
    for n in wsi:
        g.need(("fn", n), wsi[n])
    for m in bo.methods:
        if m != "__init__":
            g.need(("rec", "BucketOutput", m), bo.methods[m])
    for m in ao.methods:
        g.need(("rec", "AppendOutput", m), ao.methods[m])


def targets(src: Path) -> dict:
    return {FILE: lambda: gen_genir(src)}
