"""py2coq.extra_ownership: the storage-ownership code regenerated as EFFECT PROGRAMS (TIE target "ownership").

  compile/_cffi_ownership.py  allocate_taco_structure, taco_structure_to_cffi, take_ownership_of_arrays,
                              take_ownership_of_tensor_members, take_ownership_of_tensor
  compile/_tensor_method.py   TensorMethod.__call__ from `cffi_output = allocate_taco_structure(...)` to the end
  tensor.py                   Tensor.__init__ (shape check), from_aos (its last two statements),
                              __setstate__, __getstate__ (read-only check), who calls what (shape check)
                                                                                     -> gen/OwnershipGen.v

Every function becomes a Gallina function `pv -> ... -> M pv` over the interface of coq/model/OwnershipApi.v
(dynamically typed Python values, a state-and-exception monad).  cffi / CPython are the boundary: what
`tensor_cdefs.new`, `.gc`, `.cast`, a field read, `global_weakkeydict[...]`, a dict store DO is fixed in
OwnershipApi.v; WHICH of them the source performs, on what, in which order, under which mode test, is
regenerated.  Equivalence with coq/model/Ownership.v: coq/proofs/GenOwnership_equiv.v; documentation
design.d/TIE_ownership.md.

Everything outside the fragment raises Unsupported (fail closed: the generated file does not compile).
"""

from __future__ import annotations

import ast
import re
from pathlib import Path

from .core import Unsupported

EXCS = {"KeyError", "IndexError", "ValueError", "TypeError", "NameError", "AttributeError", "RuntimeError"}
OWN_FUNCS = ["allocate_taco_structure", "taco_structure_to_cffi", "take_ownership_of_arrays",
             "take_ownership_of_tensor_members", "take_ownership_of_tensor"]
ARRAY_FIELDS = {"vals"}            # a cdata stored here (or in indices[i][j]) is an array block of Ownership.v
PURE_BUILTINS = {"len", "range", "all", "any", "weakly_increasing", "enumerate", "zip", "tuple", "list", "set"}


def strip_doc(body):
    return [s for s in body if not (isinstance(s, ast.Expr) and isinstance(s.value, ast.Constant))]


def cstr(s: str) -> str:
    return '"' + s.replace('"', '""') + '"'


def is_attr(e, root: str, attr: str | None = None) -> bool:
    return (isinstance(e, ast.Attribute) and isinstance(e.value, ast.Name) and e.value.id == root
            and (attr is None or e.attr == attr))


def attr_path(e):
    """a.b.c -> ('a', ['b', 'c']) or None"""
    p = []
    while isinstance(e, ast.Attribute):
        p.append(e.attr)
        e = e.value
    if isinstance(e, ast.Name):
        return e.id, p[::-1]
    return None


def assigned_names(stmts) -> list[str]:
    """names (re)bound by the statements: assignment, x.append(...), loop targets excluded"""
    out: list[str] = []

    def add(n):
        if n not in out:
            out.append(n)

    def go(ss):
        for s in ss:
            if isinstance(s, ast.Assign):
                for t in s.targets:
                    if isinstance(t, ast.Name):
                        add(t.id)
            elif isinstance(s, ast.Expr) and isinstance(s.value, ast.Call) and is_append(s.value):
                add(s.value.func.value.id)
            elif isinstance(s, ast.If):
                go(s.body)
                go(s.orelse)
            elif isinstance(s, ast.For):
                go(s.body)
    go(stmts)
    return out


def is_append(c: ast.Call) -> bool:
    return (isinstance(c.func, ast.Attribute) and c.func.attr == "append" and isinstance(c.func.value, ast.Name)
            and len(c.args) == 1 and not c.keywords)


def target_names(t) -> list[str]:
    if isinstance(t, ast.Name):
        return [t.id]
    if isinstance(t, ast.Tuple):
        return [n for e in t.elts for n in target_names(e)]
    raise Unsupported(t, "loop target")


class Scope:
    def __init__(self, names=None, maybe=None):
        self.names: list[str] = list(names or [])   # in scope, in binding order
        self.maybe: set[str] = set(maybe or [])      # may still be unbound
        self.escaped: set[str] = set()               # list locals that have been read: no append any more

    def copy(self):
        s = Scope(self.names, self.maybe)
        s.escaped = set(self.escaped)
        return s

    def bind(self, n, maybe=False):
        if n not in self.names:
            self.names.append(n)
        if maybe:
            self.maybe.add(n)
        else:
            self.maybe.discard(n)


class OwnTranslator:
    def __init__(self, enum_vals: dict[str, int], struct_fields: list[str], funcs: dict[str, ast.FunctionDef]):
        self.enum_vals = enum_vals
        self.struct_fields = struct_fields
        self.funcs = funcs                      # module-level functions that may be called
        self.fresh = 0
        self.free_params: list[str] | None = None   # when translating a segment: free names become parameters
        self.roles: dict[str, str] = {}
        self.self_name: str | None = None

    # ------------------------------------------------------------------ helpers
    def tmp(self, base="t"):
        self.fresh += 1
        return f"{base}_{self.fresh}"

    def var(self, n: str) -> str:
        return "v_" + n

    def param_of_path(self, root: str, path: list[str]) -> str:
        name = "_".join([root] + [p.lstrip("_") for p in path])
        if self.free_params is None:
            raise Unsupported(ast.Name(id=name), "attribute path outside a segment")
        if name not in self.free_params:
            self.free_params.append(name)
        return self.var(name)

    def read(self, n: str, sc: Scope, node, binds) -> str:
        if n in sc.names:
            sc.escaped.add(n)
            if n in sc.maybe:
                t = self.tmp(self.var(n) + "_b")
                binds.append((t, f"py_bound {self.var(n)}"))
                return t
            return self.var(n)
        if self.free_params is not None and n not in self.funcs and n not in (
                "global_weakkeydict", "tensor_cdefs", "tensor_lib", "Tensor", "self"):
            if n not in self.free_params:
                self.free_params.append(n)
            return self.var(n)
        raise Unsupported(node, f"name {n} is not bound here")

    # ------------------------------------------------------------------ expressions -> (binds, atom)
    def ex(self, e, sc: Scope, binds) -> str:
        if isinstance(e, ast.Constant):
            if isinstance(e.value, bool):
                return f"(PBool {'true' if e.value else 'false'})"
            if isinstance(e.value, int):
                return f"(PInt ({e.value})%Z)"
            if isinstance(e.value, str):
                return f"(PStr {cstr(e.value)})"
            if e.value is None:
                return "PNone"
            raise Unsupported(e, "constant")
        if isinstance(e, ast.Name):
            return self.read(e.id, sc, e, binds)
        if isinstance(e, (ast.List, ast.Tuple)):
            if any(isinstance(x, ast.Starred) for x in e.elts):
                raise Unsupported(e, "starred display")
            return "(PList [" + "; ".join(self.ex(x, sc, binds) for x in e.elts) + "])"
        if isinstance(e, ast.Dict):
            return self.dict_display(e, sc, binds)
        if isinstance(e, ast.Attribute):
            return self.attribute(e, sc, binds)
        if isinstance(e, ast.Subscript):
            return self.subscript(e, sc, binds)
        if isinstance(e, ast.Call):
            return self.call(e, sc, binds)
        if isinstance(e, (ast.ListComp, ast.GeneratorExp)):
            return self.comprehension(e, sc, binds)
        if isinstance(e, (ast.Compare, ast.BoolOp, ast.UnaryOp)):
            b = self.bx(e, sc, binds)
            return f"(PBool {b})"
        raise Unsupported(e, "expression")

    def dict_display(self, e: ast.Dict, sc, binds):
        t = self.tmp("d")
        if not e.keys:
            binds.append((t, "new_dict"))
            return t
        if len(e.keys) == 1 and e.keys[0] is not None:
            k = self.ex(e.keys[0], sc, binds)
            v = self.ex(e.values[0], sc, binds)
            binds.append((t, f"py_dict1 {k} {v}"))
            return t
        if len(e.keys) == 2 and e.keys[0] is not None and e.keys[1] is None:
            k = self.ex(e.keys[0], sc, binds)
            v = self.ex(e.values[0], sc, binds)
            d = self.ex(e.values[1], sc, binds)
            binds.append((t, f"py_dict_star {k} {v} {d}"))
            return t
        raise Unsupported(e, "dict display")

    def attribute(self, e: ast.Attribute, sc, binds):
        if is_attr(e, "tensor_cdefs", "NULL"):
            return "(PPtr Null)"
        if is_attr(e, "tensor_lib") and e.attr in self.enum_vals:
            return f"(PInt ({self.enum_vals[e.attr]})%Z)"
        ap = attr_path(e)
        if ap is not None:
            root, path = ap
            free_root = root not in sc.names and root not in ("tensor_cdefs", "tensor_lib", "global_weakkeydict")
            if free_root and (root == "self" or root == self.self_name) and self.free_params is not None \
                    and path != ["cffi_tensor"]:
                return self.param_of_path("self", path)
            if free_root and self.free_params is not None and root not in self.funcs \
                    and path[-1] not in self.struct_fields + ["cffi_tensor", "c_int"]:
                return self.param_of_path(root, path)
        base = self.ex(e.value, sc, binds)
        t = self.tmp("a")
        if e.attr in self.struct_fields:
            binds.append((t, f"cs_get {base} {cstr(e.attr)}"))
        elif e.attr == "cffi_tensor":
            binds.append((t, f"tensor_cffi {base}"))
        elif e.attr == "c_int":
            binds.append((t, f"py_attr {base} {cstr(e.attr)}"))
        else:
            raise Unsupported(e, "attribute")
        return t

    def subscript(self, e: ast.Subscript, sc, binds):
        t = self.tmp("x")
        if isinstance(e.value, ast.Name) and e.value.id == "global_weakkeydict" and "global_weakkeydict" not in sc.names:
            k = self.ex(e.slice, sc, binds)
            binds.append((t, f"wkd_getitem {k}"))
            return t
        base = self.ex(e.value, sc, binds)
        if isinstance(e.slice, ast.Slice):
            s = e.slice
            if s.step is not None or s.upper is None or not (isinstance(s.lower, ast.Constant) and s.lower.value == 0):
                raise Unsupported(e, "slice other than [0:n]")
            hi = self.ex(s.upper, sc, binds)
            binds.append((t, f"py_slice0 {base} {hi}"))
            return t
        i = self.ex(e.slice, sc, binds)
        binds.append((t, f"py_getitem {base} {i}"))
        return t

    def call(self, e: ast.Call, sc, binds):
        f = e.func
        t = self.tmp("r")
        if isinstance(f, ast.Name) and f.id not in sc.names:
            if f.id in ("len", "range", "enumerate") and len(e.args) == 1 and not e.keywords:
                a = self.ex(e.args[0], sc, binds)
                binds.append((t, f"py_{f.id} {a}"))
                return t
            if f.id == "zip" and len(e.args) == 2 and len(e.keywords) == 1 and e.keywords[0].arg == "strict" \
                    and isinstance(e.keywords[0].value, ast.Constant) and e.keywords[0].value.value is True:
                a = self.ex(e.args[0], sc, binds)
                b = self.ex(e.args[1], sc, binds)
                binds.append((t, f"py_zip_strict {a} {b}"))
                return t
            if f.id in ("tuple", "list") and len(e.args) == 1 and not e.keywords \
                    and isinstance(e.args[0], ast.GeneratorExp):
                return self.comprehension(e.args[0], sc, binds)
            if f.id == "Tensor" and len(e.args) == 1 and not e.keywords:
                a = self.ex(e.args[0], sc, binds)
                binds.append((t, f"new_tensor {a}"))
                return t
            if f.id in self.funcs:
                fn = self.funcs[f.id]
                params = [a.arg for a in fn.args.args + fn.args.kwonlyargs]
                npos = len(fn.args.args)
                if len(e.args) > npos or fn.args.vararg or fn.args.kwarg or fn.args.defaults or \
                        any(d is not None for d in fn.args.kw_defaults):
                    raise Unsupported(e, "call shape")
                given: dict[str, ast.expr] = dict(zip(params, e.args))
                order = list(e.args)
                for kw in e.keywords:
                    if kw.arg is None or kw.arg in given or kw.arg not in params:
                        raise Unsupported(e, "keyword argument")
                    given[kw.arg] = kw.value
                    order.append(kw.value)
                if set(given) != set(params):
                    raise Unsupported(e, "missing argument")
                # Python evaluates the arguments in the order written
                atoms = {id(n): self.ex(n, sc, binds) for n in order}
                extra = " " + self.extra_args(f.id, sc, e) if self.extra_args(f.id, sc, e) else ""
                binds.append((t, f"{f.id} " + " ".join(atoms[id(given[p])] for p in params) + extra))
                return t
            raise Unsupported(e, "call of an unknown function")
        if isinstance(f, ast.Attribute):
            if is_attr(f, "tensor_cdefs", "new"):
                if len(e.args) == 1 and isinstance(e.args[0], ast.Constant) and e.args[0].value == "taco_tensor_t*" \
                        and not e.keywords:
                    binds.append((t, "new_struct"))
                    return t
                raise Unsupported(e, "tensor_cdefs.new must be bound to a name (`x = tensor_cdefs.new(ctype, init)`)")
            if is_attr(f, "tensor_cdefs", "cast") and len(e.args) == 2 and not e.keywords \
                    and isinstance(e.args[0], ast.Constant) and isinstance(e.args[0].value, str):
                a = self.ex(e.args[1], sc, binds)
                binds.append((t, f"ffi_cast {cstr(e.args[0].value)} {a}"))
                return t
            if is_attr(f, "tensor_cdefs", "gc"):
                if len(e.args) != 2 or e.keywords or not is_attr(e.args[1], "tensor_lib", "free"):
                    raise Unsupported(e, "ffi.gc with a destructor other than tensor_lib.free")
                a = self.ex(e.args[0], sc, binds)
                binds.append((t, f"ffi_gc {a}"))
                return t
            if is_attr(f, "global_weakkeydict", "get") and len(e.args) == 2 and not e.keywords:
                k = self.ex(e.args[0], sc, binds)
                d = self.ex(e.args[1], sc, binds)
                binds.append((t, f"wkd_get {k} {d}"))
                return t
            if f.attr == "keys" and not e.args and not e.keywords:
                a = self.ex(f.value, sc, binds)
                binds.append((t, f"py_keys {a}"))
                return t
            ap = attr_path(f)
            if ap == ("self", ["_evaluate"]) and len(e.args) == 1 and isinstance(e.args[0], ast.Starred) and not e.keywords:
                a = self.ex(e.args[0].value, sc, binds)
                binds.append((t, f"call_kernel {a}"))
                return t
        raise Unsupported(e, "call")

    def extra_args(self, fname, sc, node) -> str:
        return ""

    def comprehension(self, e, sc: Scope, binds):
        if len(e.generators) != 1 or e.generators[0].ifs or e.generators[0].is_async \
                or not isinstance(e.generators[0].target, ast.Name):
            raise Unsupported(e, "comprehension shape")
        g = e.generators[0]
        it = self.ex(g.iter, sc, binds)
        l = self.tmp("l")
        binds.append((l, f"py_iter {it}"))
        inner = sc.copy()
        inner.bind(g.target.id)
        ib: list = []
        atom = self.ex(e.elt, inner, ib)
        body = self.emit_binds(ib, f"ret {atom}", 0).replace("\n", " ")
        r = self.tmp("m")
        binds.append((r, f"mmap (fun {self.var(g.target.id)} => {body}) {l}"))
        return f"(PList {r})"

    # ------------------------------------------------------------------ boolean expressions -> Coq bool term
    def bx(self, e, sc, binds) -> str:
        if isinstance(e, ast.UnaryOp) and isinstance(e.op, ast.Not):
            return f"(negb {self.bx(e.operand, sc, binds)})"
        if isinstance(e, ast.Compare):
            parts = []
            left = e.left
            for op, right in zip(e.ops, e.comparators):
                parts.append(self.cmp(left, op, right, sc, binds, e))
                left = right
            if len(parts) > 1:
                # a chained comparison short-circuits; the operands here may not have effects
                for operand in [e.left] + list(e.comparators):
                    self.require_pure(operand)
            return parts[0] if len(parts) == 1 else "(" + " && ".join(parts) + ")"
        raise Unsupported(e, "condition")

    def require_pure(self, e):
        for n in ast.walk(e):
            if isinstance(n, ast.Call) and not (isinstance(n.func, ast.Name) and n.func.id in ("len", "set", "range")):
                raise Unsupported(e, "operand of a chained comparison with a call")

    def cmp(self, a, op, b, sc, binds, node) -> str:
        def is_set(x):
            return isinstance(x, ast.Call) and isinstance(x.func, ast.Name) and x.func.id == "set" \
                and len(x.args) == 1 and not x.keywords

        t = self.tmp("c")
        if is_set(a) and is_set(b) and isinstance(op, (ast.Eq, ast.NotEq)):
            x = self.ex(a.args[0], sc, binds)
            y = self.ex(b.args[0], sc, binds)
            binds.append((t, f"py_set_eq {x} {y}"))
            return t if isinstance(op, ast.Eq) else f"(negb {t})"
        x = self.ex(a, sc, binds)
        y = self.ex(b, sc, binds)
        if isinstance(op, (ast.Eq, ast.NotEq)):
            binds.append((t, f"py_eq {x} {y}"))
            return t if isinstance(op, ast.Eq) else f"(negb {t})"
        if isinstance(op, ast.Lt):
            binds.append((t, f"py_lt {x} {y}"))
            return t
        if isinstance(op, ast.Gt):
            binds.append((t, f"py_lt {y} {x}"))
            return t
        if isinstance(op, (ast.In, ast.NotIn)):
            binds.append((t, f"py_in {x} {y}"))
            return t if isinstance(op, ast.In) else f"(negb {t})"
        raise Unsupported(node, "comparison operator")

    # ------------------------------------------------------------------ emission
    def emit_binds(self, binds, tail: str, ind: int) -> str:
        pad = "  " * ind
        return "".join(f"{pad}{p} <- {c} ;;\n" for p, c in binds) + pad + tail

    def tuple_of(self, names: list[str]) -> tuple[str, str]:
        """(pattern, value) for a tuple of variables"""
        if not names:
            return "_", "tt"
        if len(names) == 1:
            return self.var(names[0]), self.var(names[0])
        vs = ", ".join(self.var(n) for n in names)
        return f"'({vs})", f"({vs})"

    # ------------------------------------------------------------------ statements
    def block(self, stmts, sc: Scope, tail: str | None, ind: int) -> str:
        """Code for the statements followed by `tail` (a Coq term of type M _).  tail None: the block is a
        function body (ends with `return e`, or falls off the end = returns None)."""
        pad = "  " * ind
        stmts = strip_doc(stmts)
        if not stmts:
            return pad + (tail if tail is not None else "ret PNone")
        s, rest = stmts[0], stmts[1:]
        binds: list = []
        if isinstance(s, ast.Pass):
            return self.block(rest, sc, tail, ind)
        if isinstance(s, ast.Return):
            if tail is not None or rest:
                raise Unsupported(s, "return that is not the last statement of the function")
            atom = self.ex(s.value, sc, binds) if s.value is not None else "PNone"
            return self.emit_binds(binds, f"ret {atom}", ind)
        if isinstance(s, ast.Raise):
            if s.cause is not None or not (isinstance(s.exc, ast.Call) and isinstance(s.exc.func, ast.Name)
                                           and s.exc.func.id in EXCS):
                raise Unsupported(s, "raise")
            # the message is not evaluated (f-strings over values already validated / printed only)
            return pad + f"raise {s.exc.func.id}"
        if isinstance(s, ast.Assign):
            if len(s.targets) != 1:
                raise Unsupported(s, "multiple assignment")
            t = s.targets[0]
            if isinstance(t, ast.Name):
                if self.is_new_call(s.value):
                    role = self.roles.get(t.id)
                    if role is None:
                        raise Unsupported(s, "cannot tell what this ffi.new array is used for")
                    ctype = s.value.args[0].value
                    init = self.ex(s.value.args[1], sc, binds)
                    atom_code = f"ffi_new {role} {cstr(ctype)} {init}"
                    binds.append((self.var(t.id), atom_code))
                else:
                    atom = self.ex(s.value, sc, binds)
                    binds.append((self.var(t.id), f"ret {atom}"))
                sc.bind(t.id)
                sc.escaped.discard(t.id)
                return self.emit_binds(binds, "", ind).rstrip() + "\n" + self.block(rest, sc, tail, ind)
            if isinstance(t, ast.Attribute):
                v = self.ex(s.value, sc, binds)
                if t.attr in self.struct_fields and isinstance(t.value, ast.Name) and t.value.id in sc.names:
                    base = self.ex(t.value, sc, binds)
                    binds.append(("_", f"cs_set {base} {cstr(t.attr)} {v}"))
                elif t.attr == "cffi_tensor" and isinstance(t.value, ast.Name) and t.value.id in sc.names:
                    base = self.ex(t.value, sc, binds)
                    binds.append(("_", f"tensor_set_cffi {base} {v}"))
                else:
                    raise Unsupported(s, "attribute store")
                return self.emit_binds(binds, "", ind).rstrip() + "\n" + self.block(rest, sc, tail, ind)
            if isinstance(t, ast.Subscript):
                # Python evaluates the value first, then the target's container and indexes
                v = self.ex(s.value, sc, binds)
                idxs = []
                base = t
                while isinstance(base, ast.Subscript):
                    if isinstance(base.slice, ast.Slice):
                        raise Unsupported(s, "slice store")
                    idxs.append(base.slice)
                    base = base.value
                idxs = idxs[::-1]
                if not isinstance(base, ast.Name):
                    raise Unsupported(s, "subscript store")
                if base.id == "global_weakkeydict" and base.id not in sc.names:
                    if len(idxs) != 1:
                        raise Unsupported(s, "store below global_weakkeydict")
                    k = self.ex(idxs[0], sc, binds)
                    binds.append(("_", f"wkd_setitem {k} {v}"))
                else:
                    b = self.ex(base, sc, binds)
                    ia = [self.ex(i, sc, binds) for i in idxs]
                    binds.append(("_", f"py_store {b} [" + "; ".join(ia) + f"] {v}"))
                return self.emit_binds(binds, "", ind).rstrip() + "\n" + self.block(rest, sc, tail, ind)
            raise Unsupported(s, "assignment target")
        if isinstance(s, ast.Expr) and isinstance(s.value, ast.Call):
            c = s.value
            if is_append(c) and c.func.value.id in sc.names:
                n = c.func.value.id
                if n in sc.escaped:
                    raise Unsupported(s, f"append to the list {n} after it has been stored or passed on (aliasing)")
                x = self.ex(c.args[0], sc, binds)
                binds.append((self.var(n), f"py_append {self.var(n)} {x}"))
                sc.maybe.discard(n)
                sc.escaped.discard(n)
                return self.emit_binds(binds, "", ind).rstrip() + "\n" + self.block(rest, sc, tail, ind)
            if isinstance(c.func, ast.Name) and c.func.id in self.funcs and c.func.id not in sc.names:
                self.call(c, sc, binds)
                binds[-1] = ("_", binds[-1][1])
                return self.emit_binds(binds, "", ind).rstrip() + "\n" + self.block(rest, sc, tail, ind)
            raise Unsupported(s, "expression statement")
        if isinstance(s, ast.If):
            return self.if_stmt(s, rest, sc, tail, ind)
        if isinstance(s, ast.For):
            return self.for_stmt(s, rest, sc, tail, ind)
        raise Unsupported(s, "statement")

    def is_new_call(self, e) -> bool:
        return (isinstance(e, ast.Call) and is_attr(e.func, "tensor_cdefs", "new") and len(e.args) == 2
                and not e.keywords and isinstance(e.args[0], ast.Constant) and isinstance(e.args[0].value, str))

    def ends_in_raise(self, stmts) -> bool:
        stmts = strip_doc(stmts)
        return bool(stmts) and isinstance(stmts[-1], ast.Raise)

    def if_stmt(self, s: ast.If, rest, sc: Scope, tail, ind) -> str:
        pad = "  " * ind
        binds: list = []
        cond = self.bx(s.test, sc, binds)
        branches = [s.body, s.orelse]
        names = [n for n in assigned_names(s.body + s.orelse)]
        pre = ""
        for n in names:
            if n not in sc.names:
                pre += f"{pad}{self.var(n)} <- ret PUnbound ;;\n"
                sc.bind(n, maybe=True)
        pat, val = self.tuple_of(names)
        codes = []
        after = []
        for b in branches:
            bsc = sc.copy()
            if self.ends_in_raise(b):
                codes.append(self.block(b, bsc, "ret " + val, ind + 2))   # the tail is never reached
                after.append(None)
            else:
                codes.append(self.block(b, bsc, "ret " + val, ind + 2))
                after.append(bsc)
        # a name is definitely bound afterwards when every branch that continues has bound it
        live = [a for a in after if a is not None]
        for n in names:
            if live and all(n not in a.maybe for a in live):
                sc.maybe.discard(n)
            elif n not in sc.maybe and any(n in a.maybe for a in live):
                sc.maybe.add(n)
        for a in live:
            sc.escaped |= a.escaped
        out = self.emit_binds(binds, "", ind).rstrip()
        out = (out + "\n" if out.strip() else "") + pre
        out += f"{pad}{pat} <- (if {cond} then\n{codes[0]}\n{pad}  else\n{codes[1]}) ;;\n"
        return out + self.block(rest, sc, tail, ind)

    def for_stmt(self, s: ast.For, rest, sc: Scope, tail, ind) -> str:
        pad = "  " * ind
        if s.orelse:
            raise Unsupported(s, "for-else")
        binds: list = []
        it = self.ex(s.iter, sc, binds)
        l = self.tmp("l")
        binds.append((l, f"py_iter {it}"))
        targets = target_names(s.target)
        body = strip_doc(s.body)
        top_assigned = [n for st in body if isinstance(st, ast.Assign) for t in st.targets if isinstance(t, ast.Name)
                        for n in [t.id]]
        carried = []
        pre = ""
        for n in assigned_names(body):
            if n in targets:
                raise Unsupported(s, "loop target re-assigned in the body")
            if n in sc.names:
                carried.append(n)
            elif n not in top_assigned:
                # only assigned under a condition: its value survives from one iteration to the next
                pre += f"{pad}{self.var(n)} <- ret PUnbound ;;\n"
                sc.bind(n, maybe=True)
                carried.append(n)
        pat, val = self.tuple_of(carried)
        bsc = sc.copy()
        x = self.tmp("x")
        unpack = self.unpack(s.target, x, ind + 2)
        for n in targets:
            bsc.bind(n)
        bcode = self.block(body, bsc, "ret " + val, ind + 2)
        for n in carried:
            # maybe-ness after the loop: what it is after one pass, or before (zero passes)
            if n in bsc.maybe:
                sc.maybe.add(n)
        sc.escaped |= bsc.escaped
        out = self.emit_binds(binds, "", ind).rstrip() + "\n" + pre
        out += f"{pad}{pat} <- mfold (fun acc_ {x} =>\n{pad}    let {pat} := acc_ in\n"
        out += unpack + bcode + f") {l} {val} ;;\n"
        # the loop targets are not available after the loop (Python keeps them; a use is refused)
        return out + self.block(rest, sc, tail, ind)

    def unpack(self, t, src: str, ind: int) -> str:
        pad = "  " * ind
        if isinstance(t, ast.Name):
            return f"{pad}{self.var(t.id)} <- ret {src} ;;\n"
        if isinstance(t, ast.Tuple) and len(t.elts) == 2:
            a, b = (self.tmp("u"), self.tmp("u"))
            out = f"{pad}'({a}, {b}) <- py_unpack2 {src} ;;\n"
            return out + self.unpack(t.elts[0], a, ind) + self.unpack(t.elts[1], b, ind)
        raise Unsupported(t, "loop target")

    # ------------------------------------------------------------------ what an ffi.new array is used for
    def analyse_roles(self, fn_body):
        self.roles = {}
        news = {}
        for n in ast.walk(ast.Module(body=fn_body, type_ignores=[])):
            if isinstance(n, ast.Assign) and len(n.targets) == 1 and isinstance(n.targets[0], ast.Name) \
                    and self.is_new_call(n.value):
                news.setdefault(n.targets[0].id, []).append(n)
        index_views = set()   # locals that are cast(..., X.indices)
        for n in ast.walk(ast.Module(body=fn_body, type_ignores=[])):
            if isinstance(n, ast.Assign) and len(n.targets) == 1 and isinstance(n.targets[0], ast.Name):
                v = n.value
                if isinstance(v, ast.Call) and is_attr(v.func, "tensor_cdefs", "cast") and len(v.args) == 2:
                    v = v.args[1]
                if isinstance(v, ast.Attribute) and v.attr == "indices":
                    index_views.add(n.targets[0].id)

        def through_cast(v):
            if isinstance(v, ast.Call) and is_attr(v.func, "tensor_cdefs", "cast") and len(v.args) == 2:
                return v.args[1]
            return v

        list_inits = set()   # lists used as the initialiser of another ffi.new
        for n in ast.walk(ast.Module(body=fn_body, type_ignores=[])):
            if self.is_new_call(n) and isinstance(n.args[1], ast.Name):
                list_inits.add(n.args[1].id)
        for name in news:
            arr = meta = False
            for n in ast.walk(ast.Module(body=fn_body, type_ignores=[])):
                if isinstance(n, ast.Assign) and len(n.targets) == 1:
                    v = through_cast(n.value)
                    if not (isinstance(v, ast.Name) and v.id == name):
                        continue
                    t = n.targets[0]
                    if isinstance(t, ast.Attribute) and t.attr in self.struct_fields:
                        if t.attr in ARRAY_FIELDS:
                            arr = True
                        else:
                            meta = True
                    elif isinstance(t, ast.Subscript) and isinstance(t.value, ast.Subscript) \
                            and isinstance(t.value.value, ast.Name) and t.value.value.id in index_views:
                        arr = True
                elif isinstance(n, ast.Call) and is_append(n) and isinstance(n.args[0], ast.Name) \
                        and n.args[0].id == name and n.func.value.id in list_inits:
                    meta = True
            if arr and not meta:
                self.roles[name] = "RArr"
            elif meta and not arr:
                self.roles[name] = "RMeta"
            # otherwise: no role, the assignment is refused

    # ------------------------------------------------------------------ whole functions
    def function(self, fn: ast.FunctionDef, coq_name: str | None = None) -> str:
        if fn.decorator_list or fn.args.vararg or fn.args.kwarg or fn.args.defaults \
                or any(d is not None for d in fn.args.kw_defaults) or fn.args.posonlyargs:
            raise Unsupported(fn, "function signature")
        params = [a.arg for a in fn.args.args + fn.args.kwonlyargs]
        self.free_params = None
        self.analyse_roles(fn.body)
        sc = Scope(params)
        body = self.block(fn.body, sc, None, 1)
        ps = " ".join(self.var(p) for p in params)
        return f"Definition {coq_name or fn.name} ({ps} : pv) : M pv :=\n{body}.\n"

    def segment(self, coq_name: str, stmts, bound: list[str], extra_params: list[str], comment: str,
                self_name: str | None = None, pre: str = "") -> str:
        """Statements with free names: the free names (and attribute paths below `self`) become parameters,
        in alphabetical order."""
        self.free_params = []
        self.self_name = self_name
        self.analyse_roles(stmts)
        sc = Scope(bound)
        body = self.block(stmts, sc, None, 1)
        params = sorted(set(self.free_params) | set(bound))
        self.free_params = None
        self.self_name = None
        ps = " ".join(self.var(p) for p in params)
        sig = (f"({ps} : pv) " if params else "") + " ".join(extra_params)
        return f"(* {comment}\n   parameters: {', '.join(params)} *)\nDefinition {coq_name} {sig} : M pv :=\n{pre}{body}.\n"


# ---------------------------------------------------------------------------------------------------------
# shape checks
# ---------------------------------------------------------------------------------------------------------

def names_called(node) -> set[str]:
    out = set()
    for n in ast.walk(node):
        if isinstance(n, ast.Call):
            if isinstance(n.func, ast.Name):
                out.add(n.func.id)
            elif isinstance(n.func, ast.Attribute):
                ap = attr_path(n.func)
                if ap:
                    out.add(".".join([ap[0]] + ap[1]))
    return out


def check_effect_free(stmts, what: str, allowed_raise: set[str]):
    """A validation section: no cffi / weak-dictionary / holder effects, only ValueError raised explicitly."""
    for s in stmts:
        for n in ast.walk(s):
            if isinstance(n, (ast.Assign, ast.AugAssign, ast.AnnAssign)):
                ts = n.targets if isinstance(n, ast.Assign) else [n.target]
                for t in ts:
                    if not isinstance(t, ast.Name):
                        raise Unsupported(n, f"{what}: store to something else than a local")
            elif isinstance(n, ast.Call):
                ok = isinstance(n.func, ast.Name) and n.func.id in PURE_BUILTINS | allowed_raise
                if not ok:
                    raise Unsupported(n, f"{what}: call in a section that must be free of effects")
            elif isinstance(n, ast.Raise):
                if not (isinstance(n.exc, ast.Call) and isinstance(n.exc.func, ast.Name) and n.exc.func.id in allowed_raise):
                    raise Unsupported(n, f"{what}: raise")
            elif isinstance(n, (ast.While, ast.With, ast.Try, ast.Delete, ast.Global, ast.Nonlocal, ast.Import,
                                ast.ImportFrom, ast.Lambda, ast.Yield, ast.YieldFrom, ast.Await, ast.NamedExpr,
                                ast.FunctionDef, ast.ClassDef, ast.Return)):
                raise Unsupported(n, f"{what}: statement in a section that must be free of effects")


def loads(stmts) -> set[str]:
    return {n.id for s in stmts for n in ast.walk(s) if isinstance(n, ast.Name) and isinstance(n.ctx, ast.Load)}


def stores(stmts) -> set[str]:
    return {n.id for s in stmts for n in ast.walk(s) if isinstance(n, ast.Name) and isinstance(n.ctx, ast.Store)}


HEADER = """(* GENERATED by /verif/tools/py2coq/extra_ownership.py from src/tensora/compile/_cffi_ownership.py,
   compile/_tensor_method.py (TensorMethod.__call__, from the allocation of the output on), tensor.py
   (from_aos: last two statements, __setstate__) -- do not edit; regenerated on every check run.
   Effect programs over the interface of coq/model/OwnershipApi.v. *)
From Coq Require Import ZArith Bool List String.
From TV Require Import model.Ownership model.OwnershipApi.
Import ListNotations.
Open Scope string_scope.
Open Scope list_scope.
Open Scope bool_scope.

"""


def parse_header(mod: ast.Module):
    """taco_type_header: the enum constants in order, the fields of taco_tensor_t"""
    text = None
    for s in mod.body:
        if isinstance(s, ast.Assign) and len(s.targets) == 1 and isinstance(s.targets[0], ast.Name) \
                and s.targets[0].id == "taco_type_header" and isinstance(s.value, ast.Constant):
            text = s.value.value
    if text is None:
        raise Unsupported(mod, "taco_type_header not found")
    m = re.search(r"typedef\s+enum\s*\{([^}]*)\}\s*taco_mode_t\s*;", text)
    if not m:
        raise Unsupported(mod, "enum taco_mode_t not found in taco_type_header")
    enum_vals = {}
    for i, c in enumerate(x.strip() for x in m.group(1).split(",")):
        if not re.fullmatch(r"[A-Za-z_]\w*", c):
            raise Unsupported(mod, f"enum constant with a value: {c}")
        enum_vals[c] = i
    m = re.search(r"typedef\s+struct\s*\{(.*?)\}\s*taco_tensor_t\s*;", text, flags=re.S)
    if not m:
        raise Unsupported(mod, "struct taco_tensor_t not found in taco_type_header")
    fields = []
    for line in m.group(1).split(";"):
        line = re.sub(r"//.*", "", line).strip()
        if not line:
            continue
        fm = re.fullmatch(r"([\w\s]+?)\s*(\**)\s*(\w+)", line)
        if not fm:
            raise Unsupported(mod, f"field declaration: {line}")
        fields.append((fm.group(3), fm.group(1).strip() + fm.group(2)))
    expect = [("order", "int32_t"), ("dimensions", "int32_t*"), ("mode_ordering", "int32_t*"),
              ("mode_types", "taco_mode_t*"), ("indices", "int32_t***"), ("vals", "double*")]
    if fields != expect:
        raise Unsupported(mod, f"taco_tensor_t is not the structure OwnershipApi.v describes: {fields}")
    if "void free(void *ptr);" not in text:
        raise Unsupported(mod, "free is not declared in taco_type_header")
    return enum_vals, [f for f, _ in fields]


def gen_ownership(src: Path) -> str:
    own_path = src / "tensora" / "compile" / "_cffi_ownership.py"
    mod = ast.parse(own_path.read_text())
    enum_vals, fields = parse_header(mod)
    if enum_vals != {"taco_mode_dense": 0, "taco_mode_sparse": 1}:
        raise Unsupported(mod, f"taco_mode_t constants are not dense = 0, sparse = 1: {enum_vals}")
    # the globals the functions use
    glob_ok = {"wkd": False, "cdefs": False, "lib_free": False}
    for s in mod.body:
        if isinstance(s, ast.Assign) and len(s.targets) == 1 and isinstance(s.targets[0], ast.Name):
            n, v = s.targets[0].id, s.value
            if n == "global_weakkeydict":
                if not (isinstance(v, ast.Call) and isinstance(v.func, ast.Name) and v.func.id == "WeakKeyDictionary"
                        and not v.args and not v.keywords):
                    raise Unsupported(s, "global_weakkeydict is not a WeakKeyDictionary()")
                glob_ok["wkd"] = True
            if n == "tensor_cdefs":
                if not (isinstance(v, ast.Call) and isinstance(v.func, ast.Name) and v.func.id == "FFI"):
                    raise Unsupported(s, "tensor_cdefs is not an FFI()")
                glob_ok["cdefs"] = True
    for s in ast.walk(mod):
        if isinstance(s, ast.Assign) and len(s.targets) == 1 and isinstance(s.targets[0], ast.Name) \
                and s.targets[0].id == "tensor_lib":
            v = s.value
            if not (isinstance(v, ast.Call) and is_attr(v.func, "tensor_cdefs", "dlopen")):
                raise Unsupported(s, "tensor_lib is not tensor_cdefs.dlopen(...)")
            glob_ok["lib_free"] = True
    if not all(glob_ok.values()):
        raise Unsupported(mod, f"module globals missing: {glob_ok}")
    for s in mod.body:   # no second definition / rebinding of the globals
        if isinstance(s, (ast.Assign, ast.AugAssign)) and any(
                isinstance(t, ast.Name) and t.id in ("global_weakkeydict",) for t in
                (s.targets if isinstance(s, ast.Assign) else [s.target])) and not glob_ok["wkd"]:
            raise Unsupported(s, "global_weakkeydict rebound")

    funcs = {s.name: s for s in mod.body if isinstance(s, ast.FunctionDef)}
    for f in OWN_FUNCS:
        if f not in funcs:
            raise Unsupported(mod, f"function {f} not found")
    T = OwnTranslator(enum_vals, fields, {f: funcs[f] for f in OWN_FUNCS})
    out = HEADER

    # ---- allocate_taco_structure: translated completely
    out += T.function(funcs["allocate_taco_structure"]) + "\n"

    # ---- taco_structure_to_cffi: the validation section becomes a parameter
    fn = funcs["taco_structure_to_cffi"]
    body = strip_doc(fn.body)
    first = body[0]
    if not (isinstance(first, ast.Assign) and isinstance(first.value, ast.Call) and isinstance(first.value.func, ast.Name)
            and first.value.func.id == "allocate_taco_structure"):
        raise Unsupported(first, "taco_structure_to_cffi does not start with allocate_taco_structure")
    cut = None
    for i, s in enumerate(body):
        if isinstance(s, ast.Assign) and isinstance(s.value, ast.Subscript) and isinstance(s.value.value, ast.Name) \
                and s.value.value.id == "global_weakkeydict":
            cut = i
            break
    if cut is None:
        raise Unsupported(fn, "taco_structure_to_cffi does not look the holder up")
    section, tail_stmts = body[1:cut], body[cut:]
    check_effect_free(section, "validation section of taco_structure_to_cffi", {"ValueError"})
    leaked = (stores(section) - stores(tail_stmts)) & loads(tail_stmts)
    if leaked:
        raise Unsupported(fn, f"a local of the validation section is used after it: {sorted(leaked)}")
    params = [a.arg for a in fn.args.args + fn.args.kwonlyargs]
    T.free_params = None
    T.analyse_roles(fn.body)
    sc = Scope(params)
    code = T.block([first], sc, "TAIL_", 1)
    tail = ("  _ <- match validation with None => ret tt | Some e_ => raise e_ end ;;\n"
            + T.block(tail_stmts, sc, None, 1))
    code = code.replace("  TAIL_", tail)
    ps = " ".join(T.var(p) for p in params)
    out += ("(* `validation`: the outcome of the statements between the allocation and the holder look-up (they only\n"
            "   inspect the arguments and raise; checked to be free of effects): None = they pass *)\n"
            f"Definition taco_structure_to_cffi ({ps} : pv) (validation : option exc) : M pv :=\n{code}.\n\n")

    class T2(OwnTranslator):
        def extra_args(self, fname, sc, node):
            return "validation" if fname == "taco_structure_to_cffi" else ""

    # ---- the three take_ownership functions
    for f in ["take_ownership_of_arrays", "take_ownership_of_tensor_members", "take_ownership_of_tensor"]:
        out += T.function(funcs[f]) + "\n"

    # ---- tensor.py
    tmod = ast.parse((src / "tensora" / "tensor.py").read_text())
    cls = next((s for s in tmod.body if isinstance(s, ast.ClassDef) and s.name == "Tensor"), None)
    if cls is None:
        raise Unsupported(tmod, "class Tensor not found")
    meths = {s.name: s for s in cls.body if isinstance(s, ast.FunctionDef)}
    init = meths.get("__init__")
    ib = strip_doc(init.body) if init else []
    if not (init and [a.arg for a in init.args.args] == ["self", "cffi_tensor"] and len(ib) == 1
            and isinstance(ib[0], ast.Assign) and ast.unparse(ib[0]) == "self.cffi_tensor = cffi_tensor"):
        raise Unsupported(init or cls, "Tensor.__init__ is not `self.cffi_tensor = cffi_tensor`")
    own_names = {"taco_structure_to_cffi", "allocate_taco_structure", "take_ownership_of_arrays",
                 "take_ownership_of_tensor", "take_ownership_of_tensor_members", "global_weakkeydict"}
    for name, m in meths.items():
        called = names_called(m)
        used = {n.id for n in ast.walk(m) if isinstance(n, ast.Name)} | {n.attr for n in ast.walk(m) if isinstance(n, ast.Attribute)}
        if name not in ("from_aos", "__setstate__") and (called & (own_names | {"Tensor"}) or used & own_names
                                                         or "tensor_cdefs.new" in called or "tensor_cdefs.gc" in called):
            raise Unsupported(m, f"Tensor.{name} builds a Tensor or touches storage ownership itself")
        for n in ast.walk(m):
            if isinstance(n, ast.Assign) and name not in ("__init__", "__setstate__"):
                for t in n.targets:
                    if isinstance(t, ast.Attribute) and t.attr == "cffi_tensor":
                        raise Unsupported(n, f"Tensor.{name} assigns cffi_tensor")
    for s in tmod.body:   # module-level helpers of tensor.py
        if isinstance(s, ast.FunctionDef):
            if names_called(s) & own_names or "tensor_cdefs.new" in names_called(s) or "tensor_cdefs.gc" in names_called(s):
                raise Unsupported(s, f"tensor.py function {s.name} touches storage ownership")
    T2i = T2(enum_vals, fields, {f: funcs[f] for f in OWN_FUNCS})
    fa = strip_doc(meths["from_aos"].body)
    if len(fa) < 2 or not isinstance(fa[-1], ast.Return):
        raise Unsupported(meths["from_aos"], "from_aos shape")
    prefix = fa[:-2]
    if any(names_called(s) & (own_names | {"Tensor"}) for s in prefix):
        raise Unsupported(meths["from_aos"], "from_aos touches ownership before its last two statements")
    out += T2i.segment("Tensor_from_aos_tail", fa[-2:], [], ["(validation : option exc)"],
                       "Tensor.from_aos: its last two statements (every other from_* / to_format returns through from_aos)") + "\n"
    ss = meths["__setstate__"]
    if [a.arg for a in ss.args.args] != ["self", "state"]:
        raise Unsupported(ss, "__setstate__ signature")
    out += T2i.segment("Tensor_setstate", strip_doc(ss.body), ["self", "state"], ["(validation : option exc)"],
                       "Tensor.__setstate__") + "\n"
    gs = meths.get("__getstate__")
    gb = strip_doc(gs.body) if gs else []
    if not (gs and len(gb) == 1 and isinstance(gb[0], ast.Return) and isinstance(gb[0].value, ast.Dict)):
        raise Unsupported(gs or cls, "__getstate__ is not a single `return {...}`")
    keys = [k.value for k in gb[0].value.keys if isinstance(k, ast.Constant)]
    if sorted(keys) != ["dimensions", "indices", "mode_ordering", "mode_types", "vals"]:
        raise Unsupported(gs, "__getstate__ keys")
    out += "(* Tensor.__getstate__: a single `return {...}` of values read through properties; no ownership effect *)\n\n"

    # ---- TensorMethod.__call__
    mmod = ast.parse((src / "tensora" / "compile" / "_tensor_method.py").read_text())
    tm = next((s for s in mmod.body if isinstance(s, ast.ClassDef) and s.name == "TensorMethod"), None)
    call = next((s for s in tm.body if isinstance(s, ast.FunctionDef) and s.name == "__call__"), None) if tm else None
    if call is None:
        raise Unsupported(mmod, "TensorMethod.__call__ not found")
    imported = set()
    for s in mmod.body:
        if isinstance(s, ast.ImportFrom) and s.module == "_cffi_ownership":
            imported |= {a.asname or a.name for a in s.names if (a.asname or a.name) == a.name}
    if not {"allocate_taco_structure", "take_ownership_of_arrays"} <= imported:
        raise Unsupported(mmod, "_tensor_method.py does not import the ownership functions under their own names")
    cb = strip_doc(call.body)
    cut = None
    for i, s in enumerate(cb):
        if isinstance(s, ast.Assign) and isinstance(s.value, ast.Call) and isinstance(s.value.func, ast.Name) \
                and s.value.func.id == "allocate_taco_structure":
            cut = i
            break
    if cut is None:
        raise Unsupported(call, "__call__ does not allocate its output with allocate_taco_structure")
    for s in cb[:cut]:
        c = names_called(s)
        if c & (own_names | {"Tensor", "self._evaluate"}):
            raise Unsupported(s, "__call__ touches ownership before the allocation of the output")
    # the other methods of TensorMethod must not run kernels / own storage
    for m in tm.body:
        if isinstance(m, ast.FunctionDef) and m.name != "__call__":
            if names_called(m) & (own_names | {"self._evaluate"}):
                raise Unsupported(m, f"TensorMethod.{m.name} touches ownership")
    T3 = OwnTranslator(enum_vals, fields, {f: funcs[f] for f in ["allocate_taco_structure", "take_ownership_of_arrays"]})
    out += T3.segment("TensorMethod_call_tail", cb[cut:], [], [],
                      "TensorMethod.__call__ from `cffi_output = allocate_taco_structure(...)` to the end", self_name="self")
    return out


def targets(src: Path) -> dict:
    return {"OwnershipGen.v": lambda: gen_ownership(src)}
