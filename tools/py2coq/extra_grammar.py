"""py2coq.extra_grammar: the two parsita grammars of tensora regenerated as TERMS of the combinator
embedding coq/model/Parsita.v                                                  -> gen/GrammarGen.v

  expression/_parser.py   class TensorExpressionParsers (every production, the whitespace option),
                          make_expression, the lambdas, parse_assignment (its try/except)
  format/_parser.py       class FormatParsers, make_format_with_orderings, the lambdas,
                          parse_format, parse_named_format
  expression/ast.py       the dataclass FIELDS of Integer/Float/Tensor/Add/Subtract/Multiply/Assignment
                          (the constructors the actions call; the trees are gen/Deparse.v's ex_expr)
  format/_format.py       Mode (members), Format (fields and its one-statement __post_init__)
  */_exceptions.py        the exception classes and their bases (for the except clauses)

parsita itself is not translated: its combinators are the constructors of the embedding, whose
interpreter (model/Parsita.v) is the trusted reading of parsita; regular expressions are parsed
by CPython's own regex parser (re._parser) and translated into the regex AST of the embedding.

Everything is fail closed: any construct outside the shapes below raises Unsupported and the generated
file does not compile.  The hand models model/Parser.v and model/FormatParser.v are PROVED equal to
the interpreter run on the generated terms in proofs/GenGrammar_equiv.v.
"""

from __future__ import annotations

import ast
import builtins
from pathlib import Path

from .core import Unsupported

FILE = "GrammarGen.v"

COQ_KEYWORDS = set()  # python names are always prefixed with v_


def cstr(s: str) -> str:
    for ch in s:
        if not (32 <= ord(ch) < 127):
            raise Unsupported(ast.Constant(s), "non-printable or non-ASCII character in a string literal")
    return '"' + s.replace('"', '""') + '"'


def cchar(code: int) -> str:
    if not (0 <= code < 128):
        raise Unsupported(ast.Constant(code), "non-ASCII character in a regular expression")
    if 32 <= code < 127 and chr(code) != '"':
        return f'"{chr(code)}"%char'
    return f"(ascii_of_nat {code})"


# --------------------------------------------------------------------------------------------
# regular expressions: CPython's parse tree -> regex AST
# --------------------------------------------------------------------------------------------


def regex_term(pattern: str, node) -> str:
    import re._constants as C
    import re._parser as P

    try:
        tree = P.parse(pattern)
    except Exception as e:  # noqa: BLE001
        raise Unsupported(node, f"regular expression does not parse: {e}")
    if tree.state.flags & ~(P.SRE_FLAG_UNICODE):
        raise Unsupported(node, "regular expression flags")

    def cls(items) -> list[tuple[int, int]]:
        out = []
        for op, av in items:
            if op is C.LITERAL:
                out.append((av, av))
            elif op is C.RANGE:
                out.append((av[0], av[1]))
            elif op is C.CATEGORY and av is C.CATEGORY_DIGIT:
                # \d: ASCII digits only (inputs are byte strings of ASCII characters in the model;
                # Python's \d also accepts other Unicode decimal digits -- outside the model, as in C12)
                out.append((48, 57))
            else:
                raise Unsupported(node, f"character class item {op} {av}")
        return out

    def nullable(seq) -> bool:
        for op, av in seq:
            if op in (C.LITERAL, C.IN):
                return False
            if op is C.MAX_REPEAT:
                if av[0] > 0 and not nullable(av[2]):
                    return False
            elif op is C.SUBPATTERN:
                if not nullable(av[3]):
                    return False
            elif op is C.BRANCH:
                if not any(nullable(a) for a in av[1]):
                    return False
            else:
                raise Unsupported(node, f"regex opcode {op}")
        return True

    def one(op, av) -> str:
        if op is C.LITERAL:
            return f"(RSet [({cchar(av)}, {cchar(av)})])"
        if op is C.IN:
            rs = cls(av)
            return "(RSet [" + "; ".join(f"({cchar(a)}, {cchar(b)})" for a, b in rs) + "])"
        if op is C.MAX_REPEAT:
            lo, hi, sub = av
            body = seq(sub)
            if hi is C.MAXREPEAT and lo in (0, 1):
                if nullable(sub):
                    raise Unsupported(node, "repetition of a pattern that can match the empty string")
                return f"(RStar {body})" if lo == 0 else f"(RPlus {body})"
            if (lo, hi) == (0, 1):
                return f"(ROpt {body})"
            raise Unsupported(node, f"bounded repetition {{{lo},{hi}}}")
        if op is C.SUBPATTERN:
            group, add_flags, del_flags, sub = av
            if add_flags or del_flags:
                raise Unsupported(node, "inline flags in a group")
            return seq(sub)  # capturing does not change what is matched (no back references: refused below)
        if op is C.BRANCH:
            alts = [seq(a) for a in av[1]]
            t = alts[-1]
            for a in reversed(alts[:-1]):
                t = f"(RAlt {a} {t})"
            return t
        # MIN_REPEAT, POSSESSIVE_REPEAT, ATOMIC_GROUP, AT (anchors), ANY, NOT_LITERAL, GROUPREF, ASSERT, ...
        raise Unsupported(node, f"regex construct {op}")

    def seq(items) -> str:
        items = list(items)
        if not items:
            return "REps"
        t = one(*items[-1])
        for op, av in reversed(items[:-1]):
            t = f"(RSeq {one(op, av)} {t})"
        return t

    return seq(tree)


# --------------------------------------------------------------------------------------------
# classes of the value universe
# --------------------------------------------------------------------------------------------

# annotation text -> (coercion from val, Coq type)
FIELD_COERCIONS = {
    "int": "as_int",
    "float": "as_float",
    "str": "as_str",
    "Expression": "as_expr",
    "Tensor": "as_tensor",
    "tuple[str, ...]": "(as_list as_str)",
    "tuple[Mode, ...]": "(as_list as_mode)",
    "tuple[int, ...]": "(as_list as_int)",
}


def dataclass_fields(cls: ast.ClassDef) -> list[tuple[str, str]]:
    out = []
    for st in cls.body:
        if isinstance(st, ast.AnnAssign) and isinstance(st.target, ast.Name):
            if st.value is not None:
                raise Unsupported(st, "field with a default value")
            out.append((st.target.id, ast.unparse(st.annotation)))
    return out


def class_methods(cls: ast.ClassDef) -> dict[str, ast.FunctionDef]:
    return {st.name: st for st in cls.body if isinstance(st, ast.FunctionDef)}


def is_dataclass(cls: ast.ClassDef) -> bool:
    for d in cls.decorator_list:
        f = d.func if isinstance(d, ast.Call) else d
        if isinstance(f, ast.Name) and f.id == "dataclass":
            return True
    return False


def module_classes(tree: ast.Module) -> dict[str, ast.ClassDef]:
    return {st.name: st for st in tree.body if isinstance(st, ast.ClassDef)}


def exception_table(*trees: ast.Module) -> dict[str, list[str]]:
    """custom exception class -> its ancestors (by name), from the `class X(Base):` headers"""
    tab: dict[str, list[str]] = {
        "Exception": ["Exception"],
        "ValueError": ["ValueError", "Exception"],
        "TypeError": ["TypeError", "Exception"],
        "RecursionError": ["RecursionError", "RuntimeError", "Exception"],
        # parsita's own RecursionError derives from Exception only
        "parsita.RecursionError": ["parsita.RecursionError", "Exception"],
    }
    for tree in trees:
        for cls in module_classes(tree).values():
            if len(cls.bases) != 1 or not isinstance(cls.bases[0], ast.Name):
                raise Unsupported(cls, "exception class with other than one named base")
            base = cls.bases[0].id
            if base not in tab:
                raise Unsupported(cls, f"exception base class {base} not known")
            tab[cls.name] = [cls.name] + tab[base]
    return tab


# --------------------------------------------------------------------------------------------
# semantic actions: a dynamically typed reading of the small expression/statement language
# --------------------------------------------------------------------------------------------


class Actions:
    def __init__(self, module: ast.Module, ctors: dict[str, int], enums: dict[str, list[str]]):
        self.module = module
        self.ctors = ctors  # class name -> arity (wrapper mk_<name>)
        self.enums = enums
        self.functions = {st.name: st for st in module.body if isinstance(st, ast.FunctionDef)}
        self.used_functions: list[str] = []
        self.imported = set()
        for st in module.body:
            if isinstance(st, ast.ImportFrom):
                for a in st.names:
                    self.imported.add(a.asname or a.name)
            elif isinstance(st, ast.Import):
                for a in st.names:
                    self.imported.add((a.asname or a.name).split(".")[0])

    # --- callable values -------------------------------------------------------------------
    BUILTIN1 = {"int": "py_int_v", "float": "py_float_v", "isfinite": "py_isfinite_v", "tuple": "py_tuple",
                "len": "py_len_v", "range": "py_range_v"}

    def check_builtin(self, name: str, node):
        """`int`, `float`, `tuple`, `len`, `range` must be the builtins; `isfinite`, `reduce` the imported ones"""
        if name in ("isfinite", "reduce"):
            if name not in self.imported:
                raise Unsupported(node, f"{name} is not imported")
            for st in self.module.body:
                if isinstance(st, ast.ImportFrom) and any((a.asname or a.name) == name for a in st.names):
                    want = {"isfinite": "math", "reduce": "functools"}[name]
                    if st.module != want or any(a.asname for a in st.names if a.name == name):
                        raise Unsupported(st, f"{name} is not {want}.{name}")
        else:
            if name in self.functions or name in self.imported or not hasattr(builtins, name):
                raise Unsupported(node, f"{name} is not the builtin")

    def fun_value(self, f, arity: int) -> str:
        """a Python callable used as a function of `arity` positional arguments -> Coq function on vals"""
        if isinstance(f, ast.Name):
            if f.id in self.ctors:
                if self.ctors[f.id] != arity:
                    raise Unsupported(f, f"constructor {f.id} applied to {arity} arguments")
                return f"mk_{f.id}"
            if f.id in self.functions:
                fn = self.functions[f.id]
                if len(fn.args.args) != arity or fn.args.vararg or fn.args.kwarg or fn.args.kwonlyargs or fn.args.defaults:
                    raise Unsupported(f, f"function {f.id} applied to {arity} arguments")
                if f.id not in self.used_functions:
                    self.used_functions.append(f.id)
                return f"py_{f.id}"
            if f.id in self.BUILTIN1 and arity == 1:
                self.check_builtin(f.id, f)
                return self.BUILTIN1[f.id]
            raise Unsupported(f, "callable not understood")
        if isinstance(f, ast.Lambda):
            a = f.args
            if a.vararg or a.kwarg or a.kwonlyargs or a.defaults or a.posonlyargs or len(a.args) != arity:
                raise Unsupported(f, "lambda signature")
            names = [x.arg for x in a.args]
            body = self.dx(f.body, set(names))
            return "(fun " + " ".join(f"v_{n}" for n in names) + f" => {body})"
        raise Unsupported(f, "callable not understood")

    def action(self, f) -> str:
        """the right operand of `>`: a function of ONE value"""
        if isinstance(f, ast.Call) and isinstance(f.func, ast.Name) and not f.keywords:
            if f.func.id == "splat" and len(f.args) == 1:
                self.need_import("splat", "parsita.util", f)
                g = f.args[0]
                ar = self.arity_of(g)
                if ar not in (1, 2):
                    raise Unsupported(f, "splat of a function of more than two arguments")
                return f"(splat{ar} {self.fun_value(g, ar)})"
            if f.func.id == "constant" and len(f.args) == 1:
                self.need_import("constant", "parsita.util", f)
                return f"(fun _ => {self.dx(f.args[0], set())})"
        return self.fun_value(f, 1)

    def need_import(self, name: str, module: str, node):
        for st in self.module.body:
            if isinstance(st, ast.ImportFrom) and st.module == module and any(a.name == name and not a.asname for a in st.names):
                return
        raise Unsupported(node, f"{name} is not {module}.{name}")

    def arity_of(self, g) -> int:
        if isinstance(g, ast.Name) and g.id in self.ctors:
            return self.ctors[g.id]
        if isinstance(g, ast.Name) and g.id in self.functions:
            return len(self.functions[g.id].args.args)
        if isinstance(g, ast.Lambda):
            return len(g.args.args)
        raise Unsupported(g, "arity not known")

    def transformer(self, f) -> str:
        """the right operand of `>=`: a lambda returning success(v) / failure(msg)"""
        if not isinstance(f, ast.Lambda) or len(f.args.args) != 1 or f.args.vararg or f.args.kwarg or f.args.defaults:
            raise Unsupported(f, "transformer must be a one-argument lambda")
        n = f.args.args[0].arg
        return f"(fun v_{n} => {self.bx(f.body, {n})})"

    def bx(self, e, env: set[str]) -> str:
        if isinstance(e, ast.IfExp):
            return f"(bif {self.dx(e.test, env)} {self.bx(e.body, env)} {self.bx(e.orelse, env)})"
        if isinstance(e, ast.Call) and isinstance(e.func, ast.Name) and not e.keywords:
            if e.func.id == "success" and len(e.args) == 1:
                self.need_import("success", "parsita", e)
                return f"(bsuccess {self.dx(e.args[0], env)})"
            if e.func.id == "failure" and len(e.args) <= 1:
                self.need_import("failure", "parsita", e)
                if e.args and not (isinstance(e.args[0], ast.Constant) and isinstance(e.args[0].value, str)):
                    raise Unsupported(e, "failure message must be a string literal")
                return "BFailure"
        raise Unsupported(e, "a transformer must return success(...) or failure(...)")

    # --- expressions -> [ares uval] --------------------------------------------------------
    def dx(self, e, env: set[str]) -> str:
        if isinstance(e, ast.Name):
            if e.id in env:
                return f"(AOk v_{e.id})"
            raise Unsupported(e, "name is not a local variable")
        if isinstance(e, ast.Constant) and isinstance(e.value, str):
            return f"(AOk (VStr {cstr(e.value)}))"
        if isinstance(e, ast.List) and not e.elts:
            return "(AOk (VList []))"
        if isinstance(e, ast.Attribute) and isinstance(e.value, ast.Name) and e.value.id in self.enums:
            if e.attr not in self.enums[e.value.id]:
                raise Unsupported(e, "not a member of the enumeration")
            return f"(AOk (VU (U{e.value.id} {e.value.id}_{e.attr})))"
        if isinstance(e, ast.IfExp):
            return f"(aif {self.dx(e.test, env)} {self.dx(e.body, env)} {self.dx(e.orelse, env)})"
        if isinstance(e, ast.Call) and isinstance(e.func, ast.Name) and not e.keywords:
            f = e.func.id
            if any(isinstance(a, ast.Starred) for a in e.args):
                raise Unsupported(e, "starred argument")
            if f == "reduce" and len(e.args) == 2:
                self.check_builtin("reduce", e)
                return f"(alift1 (py_reduce_v {self.fun_value(e.args[0], 2)}) {self.dx(e.args[1], env)})"
            if f in env:
                raise Unsupported(e, "call of a local variable")
            g = self.fun_value(e.func, len(e.args))
            args = [self.dx(a, env) for a in e.args]
            if len(args) == 1:
                return f"(alift1 {g} {args[0]})"
            if len(args) == 2:
                return f"(alift2 {g} {args[0]} {args[1]})"
            raise Unsupported(e, "call with more than two arguments")
        raise Unsupported(e, "expression not understood")

    # --- statements (module-level helper functions) ----------------------------------------
    def function(self, name: str) -> str:
        fn = self.functions[name]
        params = [a.arg for a in fn.args.args]
        self.check_lists(fn)
        body = self.block(fn.body, set(params), None, fn)
        return f"Definition py_{name} " + " ".join(f"(v_{p} : V)" for p in params) + f" : A :=\n  {body}."

    def check_lists(self, fn: ast.FunctionDef):
        """x.append(e) is read functionally: only for a local made by `x = []`, assigned once, that has no
        other name (every other use is tuple(x) / len(x))"""
        appended = set()
        for n in ast.walk(fn):
            if isinstance(n, ast.Attribute):
                if not (n.attr == "append" and isinstance(n.value, ast.Name)):
                    raise Unsupported(n, "attribute access")
                appended.add(n.value.id)
        for x in appended:
            assigns = [n for n in ast.walk(fn) if isinstance(n, ast.Assign) and any(isinstance(t, ast.Name) and t.id == x for t in n.targets)]
            if len(assigns) != 1 or not (isinstance(assigns[0].value, ast.List) and not assigns[0].value.elts):
                raise Unsupported(fn, f"{x}.append(...) on a variable that is not made by a single `{x} = []`")
            if assigns[0] not in fn.body:
                raise Unsupported(assigns[0], "list made inside a nested statement")
            ok_parents = 0
            uses = 0
            for n in ast.walk(fn):
                if isinstance(n, ast.Call):
                    if isinstance(n.func, ast.Attribute) and isinstance(n.func.value, ast.Name) and n.func.value.id == x:
                        ok_parents += 1
                    elif isinstance(n.func, ast.Name) and n.func.id in ("tuple", "len") and len(n.args) == 1 \
                            and isinstance(n.args[0], ast.Name) and n.args[0].id == x:
                        ok_parents += 1
                if isinstance(n, ast.Name) and n.id == x and isinstance(n.ctx, ast.Load):
                    uses += 1
            if uses != ok_parents:
                raise Unsupported(fn, f"the list {x} may have a second name (aliasing)")

    def assigned(self, stmts) -> list[str]:
        out: list[str] = []

        def add(n):
            if n not in out:
                out.append(n)

        for st in stmts:
            if isinstance(st, ast.Assign):
                for t in st.targets:
                    if not isinstance(t, ast.Name):
                        raise Unsupported(st, "assignment target")
                    add(t.id)
            elif isinstance(st, ast.Expr):
                c = st.value
                if isinstance(c, ast.Call) and isinstance(c.func, ast.Attribute) and isinstance(c.func.value, ast.Name):
                    add(c.func.value.id)
                else:
                    raise Unsupported(st, "expression statement")
            elif isinstance(st, ast.Match):
                for case in st.cases:
                    for n in self.assigned(case.body):
                        add(n)
            elif isinstance(st, ast.For):
                for n in self.assigned(st.body):
                    add(n)
            else:
                raise Unsupported(st, "statement inside a loop or case")
        return out

    def block(self, stmts, env: set[str], k, where) -> str:
        """k: None (function level: must end in return) or a thunk giving the term that follows"""
        if not stmts:
            if k is None:
                raise Unsupported(where, "function may end without return")
            return k(env)
        st, rest = stmts[0], stmts[1:]
        if isinstance(st, ast.Return):
            if k is not None:
                raise Unsupported(st, "return inside a loop or case")
            if rest or st.value is None:
                raise Unsupported(st, "return")
            return self.dx(st.value, env)
        if isinstance(st, ast.Assign):
            if len(st.targets) != 1 or not isinstance(st.targets[0], ast.Name):
                raise Unsupported(st, "assignment target")
            v = st.targets[0].id
            return f"(abind {self.dx(st.value, env)} (fun v_{v} =>\n  {self.block(rest, env | {v}, k, where)}))"
        if isinstance(st, ast.Expr):
            c = st.value
            if isinstance(c, ast.Call) and isinstance(c.func, ast.Attribute) and c.func.attr == "append" \
                    and isinstance(c.func.value, ast.Name) and len(c.args) == 1 and not c.keywords and c.func.value.id in env:
                x = c.func.value.id
                return f"(abind (alift2 py_append (AOk v_{x}) {self.dx(c.args[0], env)}) (fun v_{x} =>\n  {self.block(rest, env, k, where)}))"
            raise Unsupported(st, "expression statement")
        if isinstance(st, ast.Match):
            if not isinstance(st.subject, ast.Name) or st.subject.id not in env:
                raise Unsupported(st, "match subject")
            subj = st.subject.id
            cont = lambda env2: self.block(rest, env2, k, where)  # noqa: E731
            for case in st.cases:
                for n in self.assigned(case.body):
                    if n not in env:
                        raise Unsupported(case, f"case binds the new variable {n}")
            term = cont(env)
            for case in reversed(st.cases):
                if case.guard is not None:
                    raise Unsupported(case, "guard")
                p = case.pattern
                if isinstance(p, ast.MatchValue) and isinstance(p.value, ast.Constant) and isinstance(p.value.value, str):
                    term = f"(if is_str v_{subj} {cstr(p.value.value)} then {self.block(case.body, env, cont, where)}\n   else {term})"
                elif isinstance(p, ast.MatchAs) and p.pattern is None and p.name is None:
                    if case is not st.cases[-1]:
                        raise Unsupported(case, "wildcard before the last case")
                    term = self.block(case.body, env, cont, where)
                else:
                    raise Unsupported(case, "pattern")
            return term
        if isinstance(st, ast.For):
            if st.orelse or not isinstance(st.iter, ast.Name) or st.iter.id not in env:
                raise Unsupported(st, "for loop")
            if isinstance(st.target, ast.Name):
                targets = [st.target.id]
            elif isinstance(st.target, ast.Tuple) and len(st.target.elts) == 2 and all(isinstance(t, ast.Name) for t in st.target.elts):
                targets = [t.id for t in st.target.elts]
            else:
                raise Unsupported(st, "loop target")
            state = self.assigned(st.body)
            for n in state:
                if n not in env:
                    raise Unsupported(st, f"loop body binds the new variable {n}")
                if n in targets or n == st.iter.id:
                    raise Unsupported(st, "loop assigns its own variable or its iterable")
            for t in targets:
                if t in env:
                    raise Unsupported(st, "loop variable shadows a local")
                for n in rest:
                    if any(isinstance(x, ast.Name) and x.id == t for x in ast.walk(n)):
                        raise Unsupported(st, "loop variable used after the loop")
            if len(state) == 1:
                pack = lambda env2: f"(AOk v_{state[0]})"  # noqa: E731
                sb = f"v_{state[0]}"
                swrap = lambda inner: inner  # noqa: E731
                init = f"v_{state[0]}"
            elif len(state) == 2:
                pack = lambda env2: f"(AOk (VList [v_{state[0]}; v_{state[1]}]))"  # noqa: E731
                sb = "st_"
                swrap = lambda inner: f"unpack2 st_ (fun v_{state[0]} v_{state[1]} => {inner})"  # noqa: E731
                init = f"(VList [v_{state[0]}; v_{state[1]}])"
            else:
                raise Unsupported(st, "loop with other than one or two assigned variables")
            body = self.block(st.body, env | set(targets), pack, where)
            if len(targets) == 2:
                eb = "x_"
                body = f"unpack2 x_ (fun v_{targets[0]} v_{targets[1]} => {body})"
            else:
                eb = f"v_{targets[0]}"
            loop = f"(afor v_{st.iter.id} (fun {sb} {eb} => {swrap(body)}) {init})"
            after = f"(fun {sb} => {swrap(self.block(rest, env, k, where))})"
            return f"(abind {loop} {after})"
        raise Unsupported(st, "statement not understood")


# --------------------------------------------------------------------------------------------
# the grammar classes
# --------------------------------------------------------------------------------------------

COMBINATORS = {"lit", "reg", "rep", "rep1sep", "repsep"}


class GrammarClass:
    def __init__(self, module: ast.Module, cls: ast.ClassDef, actions: Actions):
        self.module, self.cls, self.actions = module, cls, actions
        if len(cls.bases) != 1 or not (isinstance(cls.bases[0], ast.Name) and cls.bases[0].id == "ParserContext"):
            raise Unsupported(cls, "grammar class must derive from ParserContext only")
        actions.need_import("ParserContext", "parsita", cls)
        self.ws = "None"
        for kw in cls.keywords:
            if kw.arg == "whitespace" and isinstance(kw.value, ast.Constant) and isinstance(kw.value.value, str):
                self.ws = f"(Some {regex_term(kw.value.value, kw.value)})"
            else:
                raise Unsupported(cls, "class keyword other than whitespace=<string literal>")
        if cls.decorator_list:
            raise Unsupported(cls, "decorated grammar class")
        self.names: list[str] = []
        for st in cls.body:
            if isinstance(st, ast.Assign) and len(st.targets) == 1 and isinstance(st.targets[0], ast.Name):
                n = st.targets[0].id
                if n in self.names:
                    raise Unsupported(st, "production defined twice")
                self.names.append(n)
            else:
                raise Unsupported(st, "statement in a grammar class body")
        module_names = set(actions.functions) | actions.imported | set(module_classes(module))
        self.prods: list[tuple[str, str]] = []
        self.defined: set[str] = set()
        for st in cls.body:
            n = st.targets[0].id
            self.module_names = module_names
            self.prods.append((n, self.px(st.value)))
            self.defined.add(n)

    def comb(self, name: str, node):
        if name not in COMBINATORS:
            raise Unsupported(node, f"combinator {name}")
        self.actions.need_import(name, "parsita", node)

    def operand(self, e) -> tuple[str, str]:
        """-> (kind, term); kind in {'seq', 'alt', 'other'} tells whether parsita would flatten it
        (an unnamed SequentialParser / LongestAlternativeParser)"""
        if isinstance(e, ast.Constant) and isinstance(e.value, str):
            return "other", f"(PLit {cstr(e.value)})"  # wrap_literal
        if isinstance(e, ast.Name):
            if e.id in self.names:
                if e.id not in self.defined:
                    # forward reference: ParsersDict.__missing__ looks in the enclosing scopes first
                    if e.id in self.module_names or hasattr(builtins, e.id):
                        raise Unsupported(e, "forward reference to a name that is also a global or a builtin")
                return "other", f"(PRef {cstr(e.id)})"
            raise Unsupported(e, "name is not a production of this grammar")
        if isinstance(e, ast.BinOp):
            lk, lt = self.operand(e.left)
            rk, rt = self.operand(e.right)
            lstr = isinstance(e.left, ast.Constant)
            rstr = isinstance(e.right, ast.Constant)
            if lstr and rstr:
                raise Unsupported(e, "operator between two string literals")
            if isinstance(e.op, ast.BitAnd):
                items = self.items(lt) if lk == "seq" else [lt]
                return "seq", "(PSeq [" + "; ".join(items + [rt]) + "])"
            if isinstance(e.op, ast.BitOr):
                items = (self.items(lt) if lk == "alt" else [lt]) + (self.items(rt) if rk == "alt" else [rt])
                return "alt", "(PAlt [" + "; ".join(items) + "])"
            if isinstance(e.op, ast.RShift):
                return "other", f"(PDiscardL {lt} {rt})"
            if isinstance(e.op, ast.LShift):
                return "other", f"(PDiscardR {lt} {rt})"
            raise Unsupported(e, "operator")
        if isinstance(e, ast.Compare):
            if len(e.ops) != 1:
                raise Unsupported(e, "chained comparison")
            _, lt = self.operand(e.left)
            if isinstance(e.left, ast.Constant):
                raise Unsupported(e, "conversion of a bare string literal")
            if isinstance(e.ops[0], ast.Gt):
                return "other", f"(PMap {lt} {self.actions.action(e.comparators[0])})"
            if isinstance(e.ops[0], ast.GtE):
                return "other", f"(PBind {lt} {self.actions.transformer(e.comparators[0])})"
            raise Unsupported(e, "comparison operator")
        if isinstance(e, ast.Call) and isinstance(e.func, ast.Name):
            f = e.func.id
            if f in self.names:
                raise Unsupported(e, "combinator name shadowed by a production")
            self.comb(f, e)
            if e.keywords or any(isinstance(a, ast.Starred) for a in e.args):
                raise Unsupported(e, "keyword or starred arguments of a combinator")
            if f == "lit":
                if not e.args or not all(isinstance(a, ast.Constant) and isinstance(a.value, str) for a in e.args):
                    raise Unsupported(e, "lit of other than string literals")
                lits = [f"(PLit {cstr(a.value)})" for a in e.args]
                if len(lits) == 1:
                    return "other", lits[0]
                return "alt", "(PAlt [" + "; ".join(lits) + "])"
            if f == "reg":
                if len(e.args) != 1 or not (isinstance(e.args[0], ast.Constant) and isinstance(e.args[0].value, str)):
                    raise Unsupported(e, "reg of other than one string literal")
                return "other", f"(PReg {regex_term(e.args[0].value, e)})"
            args = [self.operand(a)[1] for a in e.args]
            if f == "rep" and len(args) == 1:
                return "other", f"(PRep {args[0]})"
            if f == "rep1sep" and len(args) == 2:
                return "other", f"(PRep1Sep {args[0]} {args[1]})"
            if f == "repsep" and len(args) == 2:
                return "other", f"(PRepSep {args[0]} {args[1]})"
            raise Unsupported(e, "combinator arity")
        raise Unsupported(e, "parser expression not understood")

    @staticmethod
    def items(term: str) -> list[str]:
        """the elements of a term "(PSeq [a; b])" / "(PAlt [a; b])" built by operand()"""
        assert term.startswith("(PSeq [") or term.startswith("(PAlt [")
        inner = term[len("(PSeq ["):-2]
        out, depth, cur = [], 0, ""
        in_str = False
        for ch in inner:
            if ch == '"':
                in_str = not in_str
            if not in_str:
                if ch in "([":
                    depth += 1
                elif ch in ")]":
                    depth -= 1
                elif ch == ";" and depth == 0:
                    out.append(cur.strip())
                    cur = ""
                    continue
            cur += ch
        out.append(cur.strip())
        return out

    def px(self, e) -> str:
        return self.operand(e)[1]

    def term(self) -> str:
        rows = ";\n    ".join(f"({cstr(n)}, {t})" for n, t in self.prods)
        return f"Grammar {self.ws} [\n    {rows}]"


def entry_point(module: ast.Module, fname: str, gclass: str, exc: dict[str, list[str]]):
    """def f(string, /): try: return G.<prod>.parse(string) / except (A, B) as e: return result.Failure(e)
    -> (production, caught class names)"""
    fn = next((st for st in module.body if isinstance(st, ast.FunctionDef) and st.name == fname), None)
    if fn is None:
        raise Unsupported(module, f"function {fname} not found")
    params = [a.arg for a in fn.args.posonlyargs + fn.args.args]
    if len(params) != 1 or fn.args.vararg or fn.args.kwarg or fn.args.kwonlyargs or fn.decorator_list:
        raise Unsupported(fn, "entry point signature")
    if len(fn.body) != 1 or not isinstance(fn.body[0], ast.Try):
        raise Unsupported(fn, "entry point body must be one try statement")
    tr = fn.body[0]
    if tr.orelse or tr.finalbody or len(tr.body) != 1 or not isinstance(tr.body[0], ast.Return):
        raise Unsupported(tr, "try statement shape")
    call = tr.body[0].value
    ok = (isinstance(call, ast.Call) and len(call.args) == 1 and not call.keywords
          and isinstance(call.args[0], ast.Name) and call.args[0].id == params[0]
          and isinstance(call.func, ast.Attribute) and call.func.attr == "parse"
          and isinstance(call.func.value, ast.Attribute) and isinstance(call.func.value.value, ast.Name)
          and call.func.value.value.id == gclass)
    if not ok:
        raise Unsupported(tr.body[0], "entry point must return <Grammar>.<production>.parse(<argument>)")
    prod = call.func.value.attr
    caught: list[str] = []
    for h in tr.handlers:
        if h.type is None or h.name is None:
            raise Unsupported(h, "bare except")
        names = h.type.elts if isinstance(h.type, ast.Tuple) else [h.type]
        for n in names:
            if not isinstance(n, ast.Name) or n.id not in exc:
                raise Unsupported(h, "exception class not known")
            if n.id not in caught:
                caught.append(n.id)
        b = h.body
        ok = (len(b) == 1 and isinstance(b[0], ast.Return) and isinstance(b[0].value, ast.Call)
              and ast.unparse(b[0].value.func) == "result.Failure" and len(b[0].value.args) == 1
              and isinstance(b[0].value.args[0], ast.Name) and b[0].value.args[0].id == h.name)
        if not ok:
            raise Unsupported(h, "handler must be `return result.Failure(e)`")
    return prod, caught


# --------------------------------------------------------------------------------------------
# fixed support text
# --------------------------------------------------------------------------------------------

HEADER = '''(* GENERATED by /verif/tools/py2coq/extra_grammar.py from src/tensora/expression/_parser.py, format/_parser.py (+ the fields of expression/ast.py, format/_format.py, the exception classes) -- do not edit; regenerated on every check run. *)
From Coq Require Import ZArith NArith Bool List String Ascii.
From TV Require Import spec.Num model.Parser model.Parsita.
From TV Require gen.Deparse gen.ExhaustAst.
Import ListNotations.
Open Scope string_scope.

Notation ex_expr := TV.gen.Deparse.ex_expr.
Notation ex_assignment := TV.gen.Deparse.ex_assignment.
Notation Mode := TV.gen.ExhaustAst.Mode.
Notation Mode_dense := TV.gen.ExhaustAst.Mode_dense.
Notation Mode_compressed := TV.gen.ExhaustAst.Mode_compressed.
'''

SUPPORT = r'''
(* ---------------------------------------------------------------------------------------------- *)
(* fixed support text of tools/py2coq/extra_grammar.py: coercions of the untyped values and the Python
   library functions the actions call *)
Notation V := (Parsita.val uval).
Notation A := (Parsita.ares uval).

Definition as_str (v : V) : option string := match v with VStr s => Some s | _ => None end.
Definition as_int (v : V) : option Z := match v with VU (UInt z) => Some z | _ => None end.
Definition as_float (v : V) : option F := match v with VU (UFloat f) => Some f | _ => None end.
Definition as_expr (v : V) : option ex_expr := match v with VU (UExpr e) => Some e | _ => None end.
Definition as_tensor (v : V) : option ex_expr :=
  match v with VU (UExpr e) => if TV.gen.Deparse.is_ExTensor e then Some e else None | _ => None end.
Definition as_mode (v : V) : option Mode := match v with VU (UMode m) => Some m | _ => None end.

Fixpoint omapv {B} (c : V -> option B) (l : list V) : option (list B) :=
  match l with
  | [] => Some []
  | x :: t => match c x, omapv c t with Some a, Some r => Some (a :: r) | _, _ => None end
  end.
Definition as_list {B} (c : V -> option B) (v : V) : option (list B) :=
  match v with VList l => omapv c l | _ => None end.

Definition abind (a : A) (f : V -> A) : A := alift1 f a.

(* int(x) for a non-empty run of ASCII digits (other arguments: outside the fragment).  CPython's limit of
   4300 digits (ValueError) is NOT modelled: K-C12-1. *)
Definition py_int_v (v : V) : A :=
  match v with
  | VStr s =>
      match list_ascii_of_string s with
      | [] => AStuck
      | l => if forallb is_digit l then AOk (VU (UInt (Z.of_N (digits_val l)))) else AStuck
      end
  | _ => AStuck
  end.

(* the exact decimal value of a float spelling  digits[.digits][(e|E)[+-]digits]  that is not an integer
   spelling (read by the model's number lexer, which must consume all of it) *)
Definition spell_dec (s : string) : option dec :=
  match list_ascii_of_string s with
  | (c :: _) as l =>
      if is_digit c then
        match lex_number l with
        | (TFloat d, []) => Some d
        | _ => None
        end
      else None
  | [] => None
  end.

(* range(n), len(xs) *)
Definition py_range_v (v : V) : A :=
  match v with
  | VU (UInt z) => AOk (VList (map (fun i => VU (UInt (Z.of_nat i))) (seq 0 (Z.to_nat z))))
  | _ => AStuck
  end.
Definition py_len_v (v : V) : A :=
  match v with VList l => AOk (VU (UInt (Z.of_nat (List.length l)))) | _ => AStuck end.

(* math.isfinite on a float *)
Definition py_isfinite_v (v : V) : A :=
  match v with VU (UFloat f) => AOk (VU (UBool (Flocq.IEEE754.BinarySingleNaN.is_finite f))) | _ => AStuck end.

(* conditional expression on a bool (truthiness of other values: outside the fragment) *)
Definition aif (c : A) (x y : A) : A :=
  match c with
  | AOk (VU (UBool true)) => x
  | AOk (VU (UBool false)) => y
  | AOk _ => AStuck
  | e => e
  end.
Definition bif (c : A) (x y : Parsita.bres uval) : Parsita.bres uval :=
  match c with
  | AOk (VU (UBool true)) => x
  | AOk (VU (UBool false)) => y
  | AOk _ => BStuck
  | AExn e => BExn e
  | AStuck => BStuck
  end.

(* set(a) == set(b) on integers *)
Definition zset_eqb (a b : list Z) : bool :=
  forallb (fun x => existsb (Z.eqb x) b) a && forallb (fun x => existsb (Z.eqb x) a) b.
Definition zrange (n : nat) : list Z := map Z.of_nat (seq 0 n).

(* what an entry point returns: Success(value), Failure(exception), or the exception escapes *)
Inductive presult : Type :=
  | PSuccess (v : V)
  | PFailure (cls : string)      (* "ParseError" or the class of a caught exception *)
  | PRaise (cls : string)
  | PStuck
  | PFuel.

Definition is_caught (ancestors : string -> list string) (handlers : list string) (e : string) : bool :=
  existsb (fun h => existsb (String.eqb h) (ancestors e)) handlers.

Definition entry (ancestors : string -> list string) (handlers : list string) (r : Parsita.result uval) : presult :=
  match r with
  | ROk v _ => PSuccess v
  | RFail => PFailure "ParseError"
  | RExn e => if is_caught ancestors handlers e then PFailure e else PRaise e
  | RStuck => PStuck
  | RFuel => PFuel
  end.
'''


def gen_grammar(src: Path) -> str:
    ep = ast.parse((src / "tensora" / "expression" / "_parser.py").read_text())
    fp = ast.parse((src / "tensora" / "format" / "_parser.py").read_text())
    east = ast.parse((src / "tensora" / "expression" / "ast.py").read_text())
    fast = ast.parse((src / "tensora" / "format" / "_format.py").read_text())
    eexc = ast.parse((src / "tensora" / "expression" / "_exceptions.py").read_text())
    fexc = ast.parse((src / "tensora" / "format" / "_exceptions.py").read_text())
    exc = exception_table(eexc, fexc)

    out = [HEADER]

    # --- Mode, Format -------------------------------------------------------------------------
    fcls = module_classes(fast)
    mode = fcls.get("Mode")
    if mode is None or [ast.unparse(b) for b in mode.bases] != ["Enum"]:
        raise Unsupported(fast, "class Mode(Enum) not found")
    members = [st.targets[0].id for st in mode.body if isinstance(st, ast.Assign) and isinstance(st.targets[0], ast.Name)]
    if members != ["dense", "compressed"]:
        raise Unsupported(mode, "members of Mode are not (dense, compressed)")  # gen/ExhaustAst.v has exactly these
    fmt = fcls.get("Format")
    if fmt is None or not is_dataclass(fmt) or fmt.bases:
        raise Unsupported(fast, "dataclass Format not found")
    ffields = dataclass_fields(fmt)
    if ffields != [("modes", "tuple[Mode, ...]"), ("ordering", "tuple[int, ...]")]:
        raise Unsupported(fmt, "fields of Format")
    out.append("Record gformat : Type := GFormat { gf_modes : list Mode; gf_ordering : list Z }.\n")
    # Format.__post_init__: exactly  if set(self.ordering) != set(range(len(self.modes))): raise E(...)
    fm = class_methods(fmt)
    for special in ("__init__", "__new__", "__setattr__"):
        if special in fm:
            raise Unsupported(fm[special], "special method of Format")
    post = fm.get("__post_init__")
    if post is None:
        raise Unsupported(fmt, "Format.__post_init__ not found")
    body = [st for st in post.body if not isinstance(st, ast.ImportFrom)]
    if len(body) != 1 or not isinstance(body[0], ast.If) or body[0].orelse or len(body[0].body) != 1 \
            or not isinstance(body[0].body[0], ast.Raise):
        raise Unsupported(post, "Format.__post_init__ shape")
    test = ast.unparse(body[0].test)
    if test != "set(self.ordering) != set(range(len(self.modes)))":
        raise Unsupported(body[0], "Format.__post_init__ test")
    rz = body[0].body[0].exc
    if not (isinstance(rz, ast.Call) and isinstance(rz.func, ast.Name) and rz.func.id in exc):
        raise Unsupported(body[0].body[0], "raise of an unknown exception class")
    format_exn = rz.func.id

    # --- expression classes -------------------------------------------------------------------
    ecls = module_classes(east)
    ctor_fields: dict[str, list[tuple[str, str]]] = {}
    for name in ("Integer", "Float", "Tensor", "Add", "Subtract", "Multiply", "Assignment"):
        c = ecls.get(name)
        if c is None or not is_dataclass(c):
            raise Unsupported(east, f"dataclass {name} not found")
        ms = class_methods(c)
        for special in ("__init__", "__new__", "__setattr__"):
            if special in ms:
                raise Unsupported(ms[special], f"special method of {name}")
        if ("__post_init__" in ms) != (name == "Assignment"):
            raise Unsupported(c, "__post_init__ on an unexpected class")
        ctor_fields[name] = dataclass_fields(c)
        for b in c.bases:
            bn = ast.unparse(b)
            while bn in ecls:  # bases inside the module must not construct anything
                if set(class_methods(ecls[bn])) & {"__init__", "__new__", "__post_init__"}:
                    raise Unsupported(ecls[bn], "constructor logic in a base class")
                if dataclass_fields(ecls[bn]):
                    raise Unsupported(ecls[bn], "fields in a base class")
                bs = ecls[bn].bases
                bn = ast.unparse(bs[0]) if len(bs) == 1 else ""
    ctor_fields["Format"] = ffields

    out.append("Inductive uval : Type :=\n  | UExpr (e : ex_expr)\n  | UAsg (a : ex_assignment)\n  | UInt (z : Z)\n"
               "  | UFloat (f : F)\n  | UBool (b : bool)\n  | UMode (m : Mode)\n  | UFormat (f : gformat).\n")
    out.append(SUPPORT)

    out.append("Section Grammar.\n"
               "(* float(x) of a float spelling, as a function of the exact decimal value of the spelling *)\n"
               "Variable fl : dec -> F.\n"
               "(* Assignment.__post_init__ (NOT translated): None = returns, Some cls = raises cls *)\n"
               "Variable Assignment_post_init : ex_expr -> ex_expr -> option string.\n\n"
               "Definition py_float_v (v : V) : A :=\n"
               "  match v with\n  | VStr s => match spell_dec s with Some d => AOk (VU (UFloat (fl d))) | None => AStuck end\n"
               "  | _ => AStuck\n  end.\n")

    # --- constructor wrappers -----------------------------------------------------------------
    result_wrap = {"Integer": "UExpr", "Float": "UExpr", "Tensor": "UExpr", "Add": "UExpr", "Subtract": "UExpr",
                   "Multiply": "UExpr", "Assignment": "UAsg", "Format": "UFormat"}
    coq_ctor = {n: f"TV.gen.Deparse.Ex{n}" for n in result_wrap}
    coq_ctor["Format"] = "GFormat"
    for name, fields in ctor_fields.items():
        args = [f"a{i}" for i in range(len(fields))]
        coes = []
        for (fname, ann), a in zip(fields, args):
            if ann not in FIELD_COERCIONS:
                raise Unsupported(ast.Constant(ann), f"annotation of field {name}.{fname}")
            coes.append(f"{FIELD_COERCIONS[ann]} {a}")
        xs = [f"x{i}" for i in range(len(fields))]
        built = f"{coq_ctor[name]} " + " ".join(xs)
        ok = f"AOk (VU ({result_wrap[name]} ({built})))"
        if name == "Assignment":
            ok = f"match Assignment_post_init x0 x1 with Some cls => AExn cls | None => {ok} end"
        if name == "Format":
            ok = (f"if negb (zset_eqb x1 (zrange (List.length x0))) then AExn {cstr(format_exn)} else {ok}")
        pat = ", ".join(f"Some {x}" for x in xs)
        scrut = ", ".join(coes)
        wild = ", ".join("_" for _ in xs)
        out.append(f"Definition mk_{name} " + " ".join(f"({a} : V)" for a in args) + " : A :=\n"
                   f"  match {scrut} with\n  | {pat} => {ok}\n  | {wild} => AStuck\n  end.\n")
    ctors = {n: len(f) for n, f in ctor_fields.items()}

    # --- the two grammars ---------------------------------------------------------------------
    def one(module, gname, coqname, ctor_names, entries):
        acts = Actions(module, {n: ctors[n] for n in ctor_names}, {"Mode": members})
        for n in ctor_names:
            acts.need_import(n, ".ast" if n != "Format" else "._format", module) if False else None
        gcls = module_classes(module).get(gname)
        if gcls is None:
            raise Unsupported(module, f"class {gname} not found")
        g = GrammarClass(module, gcls, acts)
        text = []
        done: list[str] = []
        # helper functions (possibly calling each other: emit in order of use, callee first)
        pending = list(acts.used_functions)
        bodies = {}
        while pending:
            f = pending.pop(0)
            if f in bodies:
                continue
            before = list(acts.used_functions)
            bodies[f] = acts.function(f)
            for h in acts.used_functions:
                if h not in before:
                    raise Unsupported(acts.functions[f], "helper function calling another helper function")
            done.append(f)
        for f in done:
            text.append(bodies[f] + "\n")
        text.append(f"Definition {coqname} : Parsita.grammar uval :=\n  {g.term()}.\n")
        for fname in entries:
            prod, caught = entry_point(module, fname, gname, exc)
            if prod not in g.names:
                raise Unsupported(module, f"{fname}: production {prod} not in {gname}")
            hs = "[" + "; ".join(cstr(c) for c in caught) + "]"
            text.append(f"Definition {fname}_handlers : list string := {hs}.\n"
                        f"Definition {fname}_start : string := {cstr(prod)}.\n"
                        f"Definition {fname} (s : string) : presult :=\n"
                        f"  entry exn_ancestors {fname}_handlers (Parsita.parse uval {coqname} {fname}_start s).\n")
        return "\n".join(text)

    rows = "\n".join(f"  if String.eqb e {cstr(k)} then [" + "; ".join(cstr(a) for a in v) + "] else" for k, v in exc.items())
    out.append("(* exception classes and their ancestors *)\nDefinition exn_ancestors (e : string) : list string :=\n"
               + rows + "\n  [e].\n")

    # imports of the constructor names are checked here: the names the actions call must be the classes of
    # expression/ast.py and format/_format.py
    def check_from(module, names, modname):
        for n in names:
            okk = any(isinstance(st, ast.ImportFrom) and st.level == 1 and st.module == modname
                      and any(a.name == n and not a.asname for a in st.names) for st in module.body)
            if not okk:
                raise Unsupported(module, f"{n} is not imported from .{modname}")

    check_from(ep, ["Add", "Assignment", "Float", "Integer", "Multiply", "Subtract", "Tensor"], "ast")
    check_from(fp, ["Format", "Mode"], "_format")
    out.append(one(ep, "TensorExpressionParsers", "expression_grammar",
                   ["Integer", "Float", "Tensor", "Add", "Subtract", "Multiply", "Assignment"], ["parse_assignment"]))
    out.append(one(fp, "FormatParsers", "format_grammar", ["Format"], ["parse_format", "parse_named_format"]))
    out.append("End Grammar.\n")
    return "\n".join(out)


def targets(src: Path) -> dict:
    return {FILE: lambda: gen_grammar(src)}
