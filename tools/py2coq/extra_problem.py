"""py2coq.extra_problem: construction and identity of problems regenerated into Gallina.

  problem.py            Problem.__post_init__, the dataclass constructor Problem(...), Problem.__eq__,
                        Problem.__hash__ (the hashed tuple), make_problem             -> gen/ProblemGen.v
  expression/ast.py     Assignment.__post_init__ (the dict it stores in `_variable_orders`, its three
                        exceptions), Assignment.variable_orders, Tensor.order
  format/_format.py     Format.__post_init__ (the constructor Format(...) of the dense default)
  tensor.py             Tensor.format (property)
  compile/_porcelain.py evaluate_tensora / evaluate_cffi / tensor_method: the statements between the parser
                        calls and `cachable_tensor_method(...)` (the library steps parse_assignment /
                        parse_format are parameters: their outcome at the place where they are called)

The class tables (Mode, Format, Problem, pyarg, pyres, rbind, rfold, ...) are those of extra_validate.py:
the generated file imports gen/TensorMethod.v; the statement translator is extra_validate.VT, extended here
(fail-closed: everything outside the listed shapes raises Unsupported) by

  * `try: <body> except (A, B) as v: <handler>`  -> match on the result of the body; an exception is caught
    iff its class is one of the names (the classes must derive from Exception directly and nothing that is
    raised by name derives from them);
  * `return` inside a `for` (early exit): the loop folds over `option R`, the body is skipped once set;
  * Result values: `return Success(x)` / `return Failure(Cls(...))` / `return Failure(v)` -> [inl x] / [inr e];
    `<call>.alt(raise_exception).unwrap()` -> the Success value, a Failure is raised;
  * `[x] * n` -> [repeat x (Z.to_nat n)], `range(n)` -> [py_range n], `list(xs)`, `{k: v}`, `a | b` on dicts,
    `{k: e for k, v in d.items()}`, `set == set`, `s.intersection(t)`, `s.update(xs)` on a local set made by
    `set(...)`, `(first, *rest) = xs`, annotated assignments, `from m import X` inside a function (only names
    of exception classes), `Mode.dense`, constructor calls `Format(a, b)` / `Problem(a, b)` (the dataclass
    __init__ followed by __post_init__), `a.variable_orders()`, `e.variables()`, `t.order`, `tensor.format`.
"""

from __future__ import annotations

import ast
from pathlib import Path

from .core import PRELUDE, Unsupported
from .extra import build_expression_universe, parse_enum
from .extra_validate import (TENSOR_ATTRS, VT, Env, dataclass_fields, dict_kv, elt, find_class, imports_name,
                             is_list, is_self_attr, is_set, safe, unknown, wrap)

FILE = "ProblemGen.v"

SUPPORT = r'''
(* ---------------------------------------------------------------------------------------------- *)
(* fixed support text of tools/py2coq/extra_problem.py *)
(* range(n): empty for n <= 0 *)
Definition py_range (n : Z) : list Z := map Z.of_nat (seq 0 (Z.to_nat n)).
(* a == b on sets (duplicate-free lists in an unspecified order): mutual inclusion *)
Definition set_eqb {A} (eqb : A -> A -> bool) (a b : list A) : bool :=
  forallb (fun x => py_in eqb x b) a && forallb (fun x => py_in eqb x a) b.
(* a | b on dicts: the entries of b stored into a copy of a, in b's order *)
Definition dict_union {K V} (eqb : K -> K -> bool) (a b : list (K * V)) : list (K * V) :=
  fold_left (fun acc kv => dict_set eqb (fst kv) (snd kv) acc) b a.
(* {k: v for ...}: the entries stored one after the other into an empty dict *)
Definition dict_of_items {K V} (eqb : K -> K -> bool) (l : list (K * V)) : list (K * V) :=
  dict_union eqb nil l.
Definition exc_class (e : pyexc) : string := match e with PyExc cls _ _ => cls end.
(* `except (A, B)`: the classes derive from Exception directly and have no subclasses among the raised ones *)
Definition exc_is (names : list string) (e : pyexc) : bool := py_in String.eqb (exc_class e) names.
(* <Result>.alt(raise_exception).unwrap() *)
Definition unwrap_or_raise {A} (r : A + pyexc) : pyres A :=
  match r with inl a => Ret a | inr e => Raise e end.
'''

BUILTIN_EXC = {"TypeError", "ValueError", "KeyError", "IndexError", "AttributeError", "NotImplementedError"}


class PEnv(Env):
    def __init__(self, tr, method):
        super().__init__(tr, method)
        self.loop_ret = False  # inside a for whose body may `return`
        self.stored: dict[str, tuple[str, str]] = {}  # object.__setattr__(self, attr, v)

    def clone(self):
        e = PEnv(self.tr, self.method)
        e.types = dict(self.types)
        e.refined = {k: dict(v) for k, v in self.refined.items()}
        e.self_attrs = dict(self.self_attrs)
        e.self_type = self.self_type
        e.own_dicts = set(self.own_dicts)
        e.counter = self.counter
        e.sites = self.sites
        e.loop_ret = self.loop_ret
        e.stored = self.stored
        return e


def contains(stmts, kinds) -> bool:
    return any(isinstance(n, kinds) for s in stmts for n in ast.walk(s))


class PT(VT):
    def __init__(self, U, records, tensor_attrs, modes):
        super().__init__(U, records, tensor_attrs)
        self.modes = modes
        self.ex_props: dict[str, tuple[str, str]] = {}  # property of the expression hierarchy -> (function, type)
        self.arg_props: dict[str, tuple[str, str]] = {}  # translated property of tensor.Tensor -> (function, type)
        self.ctors: dict[str, tuple[str, list[str]]] = {}  # class -> (constructor function, field types)
        self.funcs: dict[str, tuple[str, list[str], str]] = {}  # module function -> (coq name, arg types, result type)
        self.ret_ok: str | None = None  # type of x in `return Success(x)`
        self.raised: set[str] = set()  # class names raised / constructed as failures
        self.caught: set[str] = set()  # class names in except clauses

    # ------------------------------------------------------------------ types
    def eqb(self, ty, node):
        if ty == "Format":
            return "Format_eqb"
        if ty == "ex_assignment":
            return "ex_assignment_eqb"
        if ty == "ex_expr":
            return "ex_expr_eqb"
        if is_set(ty):
            return f"(set_eqb {self.eqb(elt(ty), node)})"
        return super().eqb(ty, node)

    def ann_type(self, ann, node):
        s = ast.unparse(ann)
        if s == "dict[str, int]":
            return "(pydict string Z)"
        return super().ann_type(ann, node)

    # ------------------------------------------------------------------ expressions
    def expr(self, e, env, want=None):
        if isinstance(e, ast.Dict) and e.keys:
            if any(k is None for k in e.keys):
                raise Unsupported(e, "** in a dict display")
            acc, kt0, vt0 = "nil", None, None
            for kx, vx in zip(e.keys, e.values):
                k, kt = self.expr(kx, env)
                v, vt = self.expr(vx, env)
                if unknown(kt) or unknown(vt) or (kt0 is not None and (kt, vt) != (kt0, vt0)):
                    raise Unsupported(e, "dict display with entries of different / unknown types")
                kt0, vt0 = kt, vt
                acc = f"(dict_set {self.eqb(kt, e)} {k} {v} {acc})"
            return acc, f"(pydict {kt0} {vt0})"
        if isinstance(e, ast.BinOp) and isinstance(e.op, ast.Mult):
            if not (isinstance(e.left, ast.List) and len(e.left.elts) == 1 and not isinstance(e.left.elts[0], ast.Starred)):
                raise Unsupported(e, "* other than [x] * n")
            x, xt = self.expr(e.left.elts[0], env)
            n, nt = self.expr(e.right, env)
            self.need(nt, "Z", e)
            return f"(repeat {x} (Z.to_nat {n}))", f"(list {xt})"
        if isinstance(e, ast.BinOp) and isinstance(e.op, ast.BitOr):
            a, at = self.expr(e.left, env)
            b, bt = self.expr(e.right, env)
            if not dict_kv(at) or at != bt or unknown(at):
                raise Unsupported(e, f"| between {at} and {bt}")
            return f"(dict_union {self.eqb(dict_kv(at)[0], e)} {a} {b})", at
        return super().expr(e, env, want)

    def attribute(self, e, env):
        if isinstance(e.value, ast.Name) and e.value.id == "Mode" and "Mode" not in env.types:
            if e.attr not in self.modes:
                raise Unsupported(e, "no such member of Mode")
            return f"Mode_{e.attr}", "Mode"
        if e.attr in self.ex_props or e.attr in self.arg_props:
            n = len(env.pending)
            x, xt = self.expr(e.value, env)
            if xt == "ex_expr" and e.attr in self.ex_props:
                fn, ty = self.ex_props[e.attr]
                return self.effect(env, e.attr, f"{fn} {x}"), ty
            if xt == "pyarg" and e.attr in self.arg_props and not (isinstance(e.value, ast.Name) and e.value.id in env.refined):
                fn, ty = self.arg_props[e.attr]
                return self.effect(env, e.attr, f"{fn} {x}"), ty
            del env.pending[n:]
        return super().attribute(e, env)

    def dictcomp(self, e, env):
        """{k: <expr> for k, v in d.items()}: the entries stored in d's order (the value may raise)."""
        g = e.generators[0] if len(e.generators) == 1 else None
        plain = (g is not None and isinstance(e.value, ast.Name) and isinstance(g.target, ast.Tuple)
                 and len(g.target.elts) == 2 and isinstance(g.target.elts[1], ast.Name) and e.value.id == g.target.elts[1].id)
        if plain:
            return super().dictcomp(e, env)
        ok = (g is not None and not g.is_async and not g.ifs
              and isinstance(g.iter, ast.Call) and isinstance(g.iter.func, ast.Attribute) and g.iter.func.attr == "items"
              and not g.iter.args and not g.iter.keywords
              and isinstance(g.target, ast.Tuple) and len(g.target.elts) == 2
              and all(isinstance(x, ast.Name) for x in g.target.elts)
              and isinstance(e.key, ast.Name) and e.key.id == g.target.elts[0].id)
        if not ok:
            raise Unsupported(e, "dict comprehension other than {k: <expr> for k, v in d.items()}")
        d, dt = self.expr(g.iter.func.value, env)
        kv = dict_kv(dt)
        if not kv or unknown(dt):
            raise Unsupported(e, ".items() of a non-dict")
        inner = env.clone()
        pat = self.pattern(g.target, f"({kv[0]} * {kv[1]})", inner, e)
        k = safe(e.key.id)
        body, bty = self.expr(e.value, inner)
        eff = inner.take()
        if unknown(bty):
            raise Unsupported(e, "value type of the dict comprehension")
        if eff:
            v = self.effect(env, "items", f"rmap (fun {pat} =>\n    {wrap(eff, f'Ret ({k}, {body})')}) {d}")
            items = v
        else:
            items = f"(map (fun {pat} => ({k}, {body})) {d})"
        return f"(dict_of_items {self.eqb(kv[0], e)} {items})", f"(pydict {kv[0]} {bty})"

    def call(self, e, env, want):
        f = e.func
        if isinstance(f, ast.Name) and f.id not in env.types and not e.keywords:
            if f.id == "range" and len(e.args) == 1:
                n, nt = self.expr(e.args[0], env)
                self.need(nt, "Z", e)
                return f"(py_range {n})", "(list Z)"
            if f.id == "list" and len(e.args) == 1:
                x, xt = self.expr(e.args[0], env)
                if is_list(xt) and not unknown(xt):
                    return x, xt
                raise Unsupported(e, f"list() of a value of type {xt}")
            if f.id in self.ctors:
                fn, tys = self.ctors[f.id]
                if len(e.args) != len(tys):
                    raise Unsupported(e, "constructor arguments")
                args = []
                for a, ty in zip(e.args, tys):
                    t, aty = self.expr(a, env, want=ty)
                    self.need(aty, ty, e)
                    args.append(t)
                return self.effect(env, f.id.lower(), f"{fn} " + " ".join(args)), f.id
            if f.id in self.funcs:
                fn, tys, rty = self.funcs[f.id]
                if len(e.args) != len(tys):
                    raise Unsupported(e, "function arguments")
                args = []
                for a, ty in zip(e.args, tys):
                    t, aty = self.expr(a, env, want=ty)
                    self.need(aty, ty, e)
                    args.append(t)
                return self.effect(env, "r", f"{fn} " + " ".join(args)), rty
        if isinstance(f, ast.Attribute) and not e.keywords:
            # <Result>.alt(raise_exception).unwrap()
            if f.attr == "unwrap" and not e.args and isinstance(f.value, ast.Call) and isinstance(f.value.func, ast.Attribute) \
                    and f.value.func.attr == "alt" and len(f.value.args) == 1 and not f.value.keywords \
                    and isinstance(f.value.args[0], ast.Name) and f.value.args[0].id == "raise_exception" \
                    and "raise_exception" not in env.types:
                r, rt = self.expr(f.value.func.value, env)
                if not rt.endswith(" + pyexc)"):
                    raise Unsupported(e, f".alt(raise_exception).unwrap() of a value of type {rt}")
                return self.effect(env, "ok", f"unwrap_or_raise {r}"), rt[1:-len(" + pyexc)")]
            if f.attr == "variable_orders" and not e.args:
                x, xt = self.expr(f.value, env)
                self.need(xt, "ex_assignment", e)
                return self.effect(env, "orders", f"Assignment_variable_orders {x}"), "(pydict string Z)"
            if f.attr == "variables" and not e.args:
                x, xt = self.expr(f.value, env)
                self.need(xt, "ex_expr", e)
                return self.effect(env, "vars", f'of_opt "KeyError" (Expression_variables {x})'), \
                    "(pydict string (list ex_expr))"
            if f.attr == "intersection" and len(e.args) == 1:
                s, st = self.expr(f.value, env)
                x, xt = self.expr(e.args[0], env)
                if not is_set(st) or elt(xt) != elt(st) or unknown(st):
                    raise Unsupported(e, f"intersection of a {st} and a {xt}")
                return f"(set_inter {self.eqb(elt(st), e)} {s} {x})", st
        return super().call(e, env, want)

    # ------------------------------------------------------------------ statements
    def exception_vals(self, call: ast.Call, env):
        fake = ast.Raise(exc=call, cause=None)
        ast.copy_location(fake, call)
        cls, vals = self.message_vals(fake, env)
        self.raised.add(cls)
        return cls, vals

    def raise_text(self, node, env):
        cls, _ = self.message_vals(node, env)
        self.raised.add(cls)
        return super().raise_text(node, env)

    def return_text(self, s: ast.Return, env) -> str:
        v = s.value
        if self.ret_ok is None or not (isinstance(v, ast.Call) and isinstance(v.func, ast.Name) and len(v.args) == 1
                                       and not v.keywords and v.func.id in ("Success", "Failure")
                                       and v.func.id not in env.types):
            raise Unsupported(s, "return other than Success(x) / Failure(e) in a function returning a Result")
        a = v.args[0]
        if v.func.id == "Success":
            t, ty = self.expr(a, env)
            self.need(ty, self.ret_ok, s)
            text = f"(inl {t})"
        elif isinstance(a, ast.Name) and env.types.get(a.id) == "pyexc":
            text = f"(inr {safe(a.id)})"
        elif isinstance(a, ast.Call) and isinstance(a.func, ast.Name) and a.func.id not in env.types:
            cls, vals = self.exception_vals(a, env)
            text = f'(inr (PyExc "{cls}" {env.sites[id(s)]} [{"; ".join(vals)}]))'
        else:
            raise Unsupported(s, "Failure of something that is not an exception")
        binds = env.take()
        return wrap(binds, f"Ret (Some {text})" if env.loop_ret else f"Ret {text}")

    def assigned(self, stmts):
        out = []
        for s in stmts:
            for n in ast.walk(s):
                if isinstance(n, ast.Expr) and isinstance(n.value, ast.Call) and isinstance(n.value.func, ast.Attribute) \
                        and n.value.func.attr == "update" and isinstance(n.value.func.value, ast.Name):
                    if n.value.func.value.id not in out:
                        out.append(n.value.func.value.id)
                elif isinstance(n, ast.Expr) and not (isinstance(n.value, ast.Constant)):
                    raise Unsupported(n, "expression statement inside a loop")
        for x in super().assigned(stmts):
            if x not in out:
                out.append(x)
        return out

    def block(self, stmts, env, k):
        if not stmts:
            return k(env)
        s, rest = stmts[0], stmts[1:]
        if isinstance(s, ast.ImportFrom):
            for a in s.names:
                nm = a.asname or a.name
                if nm in env.types or not nm.endswith("Error"):
                    raise Unsupported(s, "import inside a function of something that is not an exception class")
            return self.block(rest, env, k)
        if isinstance(s, ast.AnnAssign):
            if s.value is None:
                if is_self_attr(s.target):
                    return self.block(rest, env, k)  # a bare declaration `self.x: T`
                raise Unsupported(s, "declaration")
            if not isinstance(s.target, ast.Name) or not s.simple:
                raise Unsupported(s, "annotated assignment target")
            want = self.ann_type(s.annotation, s)
            new = ast.Assign(targets=[s.target], value=s.value)
            ast.copy_location(new, s)
            text = self.block([new] + list(rest), env, k)
            return text
        if isinstance(s, ast.Return) and env.method == "fn":
            return self.return_text(s, env)
        if isinstance(s, ast.Expr) and isinstance(s.value, ast.Call):
            c = s.value
            if isinstance(c.func, ast.Attribute) and c.func.attr == "update" and isinstance(c.func.value, ast.Name) \
                    and len(c.args) == 1 and not c.keywords:
                name = c.func.value.id
                ty = env.types.get(name, "")
                if not is_set(ty) or name not in env.own_dicts:
                    raise Unsupported(s, ".update() other than on a local set made by set(...)")
                x, xt = self.expr(c.args[0], env)
                binds = env.take()
                if elt(xt) != elt(ty) or unknown(xt):
                    raise Unsupported(s, f"update of a {ty} with a {xt}")
                eq = self.eqb(elt(ty), s)
                arg = x if is_set(xt) else f"(set_of_list {eq} {x})"
                return wrap(binds, f"let {safe(name)} := set_union {eq} {safe(name)} {arg} in\n    {self.block(rest, env, k)}")
            if ast.unparse(c.func) == "object.__setattr__" and env.method == "post_init" and len(c.args) == 3 \
                    and not c.keywords and isinstance(c.args[0], ast.Name) and c.args[0].id == "self" \
                    and isinstance(c.args[1], ast.Constant) and isinstance(c.args[2], ast.Name) \
                    and "object" not in env.types:
                if rest:
                    raise Unsupported(s, "object.__setattr__ that is not the last statement")
                t, ty = self.expr(c.args[2], env)
                env.stored[c.args[1].value] = (t, ty)
                return self.block(rest, env, k)
            raise Unsupported(s, "expression statement")
        if isinstance(s, ast.Assign) and len(s.targets) == 1 and isinstance(s.targets[0], ast.Tuple) \
                and any(isinstance(x, ast.Starred) for x in s.targets[0].elts):
            tg = s.targets[0]
            if not (len(tg.elts) == 2 and isinstance(tg.elts[0], ast.Name) and isinstance(tg.elts[1], ast.Starred)
                    and isinstance(tg.elts[1].value, ast.Name)):
                raise Unsupported(s, "starred target other than (first, *rest)")
            a, b = tg.elts[0].id, tg.elts[1].value.id
            x, xt = self.expr(s.value, env)
            binds = env.take()
            if not is_list(xt) or unknown(xt) or a == b or "self" in (a, b):
                raise Unsupported(s, f"(first, *rest) = value of type {xt}")
            for nm, ty in ((a, elt(xt)), (b, xt)):
                env.types[nm] = ty
                env.refined.pop(nm, None)
                env.own_dicts.discard(nm)
            return wrap(binds, f'match {x} with\n    | nil => Raise (builtin_exc "ValueError")\n'
                               f"    | {safe(a)} :: {safe(b)} =>\n    {self.block(rest, env, k)}\n    end")
        if isinstance(s, ast.Try):
            return self.try_stmt(s, rest, env, k)
        return super().block(stmts, env, k)

    def assign_name(self, name, s, rest, env, k):
        fresh_set = isinstance(s.value, ast.Call) and isinstance(s.value.func, ast.Name) and s.value.func.id == "set" \
            and "set" not in env.types
        fresh_dict = isinstance(s.value, ast.Dict)
        if not (fresh_set or (fresh_dict and s.value.keys)):
            return super().assign_name(name, s, rest, env, k)
        if name in ("self", "_"):
            raise Unsupported(s, "assignment to self / _")
        t, ty = self.expr(s.value, env, want=env.types.get(name))
        binds = env.take()
        if unknown(ty):
            raise Unsupported(s, "cannot infer the type of the assigned value")
        env.refined.pop(name, None)
        env.types[name] = ty
        env.own_dicts.add(name)  # a new container that has no other name: in-place updates are local
        return wrap(binds, f"let {safe(name)} : {ty} := {t} in\n    {self.block(rest, env, k)}")

    def try_stmt(self, s: ast.Try, rest, env, k):
        if s.orelse or s.finalbody or len(s.handlers) != 1:
            raise Unsupported(s, "try with else / finally / several handlers")
        h = s.handlers[0]
        if h.type is None or h.name is None:
            raise Unsupported(s, "bare except / except without a name")
        names = h.type.elts if isinstance(h.type, ast.Tuple) else [h.type]
        if not all(isinstance(n, ast.Name) and n.id not in env.types for n in names):
            raise Unsupported(s, "except clause")
        classes = [n.id for n in names]
        self.caught.update(classes)
        if contains(s.body, (ast.Return, ast.For, ast.While, ast.Try)):
            raise Unsupported(s, "control flow inside a try body")
        out = [n for n in self.assigned(s.body)]
        if any(n in env.own_dicts for n in out):
            raise Unsupported(s, "a local container is updated inside a try body")
        inner = env.clone()
        val = "tt" if not out else safe(out[0]) if len(out) == 1 else "(" + ", ".join(safe(n) for n in out) + ")"
        body = self.block(list(s.body), inner, lambda e_: f"Ret {val}")
        henv = env.clone()
        if h.name in henv.types:
            raise Unsupported(s, "the exception variable shadows a local")
        henv.types[h.name] = "pyexc"
        ends = bool(h.body) and isinstance(h.body[-1], (ast.Return, ast.Raise))
        handler = self.block(list(h.body) + ([] if ends else list(rest)), henv, k)
        for n in out:
            env.types[n] = inner.types[n]
            env.refined.pop(n, None)
            env.own_dicts.discard(n)
        pat = "_" if not out else safe(out[0]) if len(out) == 1 else "'" + val
        after = self.block(rest, env, k)
        cl = "; ".join(f'"{c}"' for c in classes)
        return (f"match (\n    {body}) with\n    | Ret {pat} =>\n    {after}\n"
                f"    | Raise {safe(h.name)} => if exc_is [{cl}] {safe(h.name)} then\n    {handler}\n"
                f"    else Raise {safe(h.name)}\n    end")

    def for_stmt(self, s, rest, env, k):
        if not contains(s.body, ast.Return):
            return super().for_stmt(s, rest, env, k)
        # a loop that may `return`: fold over [option R]; once set, the remaining rounds do nothing
        if s.orelse or env.method != "fn" or env.loop_ret or self.ret_ok is None:
            raise Unsupported(s, "return inside this loop")
        if contains(s.body, (ast.Assign, ast.AugAssign, ast.AnnAssign, ast.For, ast.While, ast.Try, ast.Break, ast.Continue,
                             ast.NamedExpr, ast.Expr)):
            raise Unsupported(s, "a loop with `return` may only test and return")
        src, et = self.iterable(s.iter, env)
        binds = env.take()
        targets = [x.id for x in ast.walk(s.target) if isinstance(x, ast.Name)]
        if any(t in env.types for t in targets if t != "_"):
            raise Unsupported(s, "loop variable shadows a variable of the enclosing block")
        inner = env.clone()
        inner.loop_ret = True
        pat = self.pattern(s.target, et, inner, s)
        body = self.block(list(s.body), inner, lambda e_: "Ret None")
        after = self.block(rest, env, k)
        rty = f"({self.ret_ok} + pyexc)"
        return wrap(binds, f"rbind (rfold (fun (ret_ : option {rty}) {pat} =>\n    match ret_ with Some _ => Ret ret_ | None =>\n"
                           f"    {body}\n    end) {src} None) (fun ret_ =>\n    match ret_ with Some r_ => Ret r_ | None =>\n"
                           f"    {after}\n    end)")


# --------------------------------------------------------------------------------------------
# helpers on the class definitions
# --------------------------------------------------------------------------------------------


def number_sites(fn: ast.FunctionDef) -> dict[int, int]:
    """ordinal (source order) of the places where the function names an exception: `raise Cls(...)` and
    `return Failure(Cls(...))`"""
    nodes = [n for n in ast.walk(fn) if isinstance(n, ast.Raise)
             or (isinstance(n, ast.Return) and isinstance(n.value, ast.Call) and isinstance(n.value.func, ast.Name)
                 and n.value.func.id == "Failure" and n.value.args and isinstance(n.value.args[0], ast.Call))]
    nodes.sort(key=lambda n: (n.lineno, n.col_offset))
    return {id(n): i for i, n in enumerate(nodes)}


def method_of(cls: ast.ClassDef, name: str, required=True):
    found = [m for m in cls.body if isinstance(m, ast.FunctionDef) and m.name == name]
    if len(found) > 1 or (required and not found):
        raise Unsupported(cls, f"method {name} of {cls.name} missing (or defined twice)")
    return found[0] if found else None


def plain_self_method(m: ast.FunctionDef, decorators=()):
    a = m.args
    if [x.arg for x in a.args] != ["self"] or a.vararg or a.kwarg or a.kwonlyargs or a.posonlyargs or a.defaults \
            or [ast.unparse(d) for d in m.decorator_list] != list(decorators):
        raise Unsupported(m, "signature / decorators of the method")


def dataclass_with_eq(cls: ast.ClassDef, allow_own_eq=False):
    """a dataclass whose == is the field-wise one the decorator generates"""
    decs = [d for d in cls.decorator_list if "dataclass" in ast.unparse(d)]
    if len(decs) != 1 or len(cls.decorator_list) != 1:
        raise Unsupported(cls, "decorators")
    d = decs[0]
    if isinstance(d, ast.Call):
        for kw in d.keywords:
            if kw.arg not in ("frozen", "slots") or not (isinstance(kw.value, ast.Constant) and kw.value.value is True):
                raise Unsupported(cls, f"dataclass option {kw.arg}")
        if d.args:
            raise Unsupported(cls, "dataclass arguments")
    if not allow_own_eq:
        for m in cls.body:
            if isinstance(m, ast.FunctionDef) and m.name in ("__eq__", "__hash__", "__ne__", "__init__", "__new__",
                                                            "__getattribute__", "__getattr__"):
                raise Unsupported(m, f"{cls.name} defines {m.name}")


def body_without_doc(fn: ast.FunctionDef):
    return [s for s in fn.body if not (isinstance(s, ast.Expr) and isinstance(s.value, ast.Constant)
                                       and isinstance(s.value.value, str))]


def exception_classes(tree: ast.Module) -> dict[str, list[str]]:
    return {n.name: [ast.unparse(b) for b in n.bases] for n in tree.body if isinstance(n, ast.ClassDef)
            and n.name.endswith("Error")}


# --------------------------------------------------------------------------------------------
# the generated file
# --------------------------------------------------------------------------------------------


def gen_problem(src: Path) -> str:
    U = build_expression_universe(src)
    if [(f, t) for f, t in U.inds["ex_assignment"][0].fields] != [("target", "ex_expr"), ("expression", "ex_expr")]:
        raise Unsupported(ast.Constant("Assignment"), "fields of Assignment")
    ftree = ast.parse((src / "tensora/format/_format.py").read_text())
    modes = parse_enum(ftree, "Mode")
    vt = PT(U, {}, [(a, ty) for a, _, ty in TENSOR_ATTRS], modes)
    out = [PRELUDE.format(src="src/tensora/problem.py (Problem.__post_init__, __eq__, __hash__, make_problem), "
                              "expression/ast.py (Assignment.__post_init__, variable_orders, Tensor.order), "
                              "format/_format.py (Format.__post_init__), tensor.py (Tensor.format), "
                              "compile/_porcelain.py (the statements around make_problem)"),
           "From TV Require Import spec.PyLib gen.Deparse gen.TensorMethod.\nOpen Scope string_scope.\n", SUPPORT]
    # ---- the records of gen/TensorMethod.v (same text: dataclass_fields is the function that emitted them)
    fcls, ffields = dataclass_fields(ftree, "Format", vt)
    ptree = ast.parse((src / "tensora/problem.py").read_text())
    pcls, pfields = dataclass_fields(ptree, "Problem", vt)
    if ffields != [("modes", "(list Mode)"), ("ordering", "(list Z)")]:
        raise Unsupported(fcls, "fields of Format")
    if pfields != [("assignment", "ex_assignment"), ("formats", "(pydict string Format)")]:
        raise Unsupported(pcls, "fields of Problem")
    order_prop = method_of(fcls, "order")
    plain_self_method(order_prop, ["property"])
    vt.records["Format"] = ("MkFormat", ffields, {"order": ("Format_order", "Z")})  # defined in gen/TensorMethod.v
    vt.records["Problem"] = ("MkProblem", pfields, {})
    vt.records["ex_assignment"] = ("ExAssignment", [("target", "ex_expr"), ("expression", "ex_expr")], {})
    # ---- equality of the dataclasses (the == the decorator generates: field by field)
    xtree = ast.parse((src / "tensora/expression/ast.py").read_text())
    for n in xtree.body:
        if isinstance(n, ast.ClassDef):
            for m in n.body:
                if isinstance(m, ast.FunctionDef) and m.name in ("__eq__", "__hash__", "__ne__"):
                    raise Unsupported(m, f"{n.name} defines {m.name}: ex_expr_eqb would not be its ==")
    acls = find_class(xtree, "Assignment")
    dataclass_with_eq(acls)
    dataclass_with_eq(fcls)
    dataclass_with_eq(pcls, allow_own_eq=True)
    out.append("(* == of the frozen dataclasses Format and Assignment: field by field *)")
    out.append("Definition Format_eqb (a b : Format) : bool :=\n  "
               + " && ".join(f"{vt.eqb(ty, fcls)} (Format_{fn} a) (Format_{fn} b)" for fn, ty in ffields) + ".")
    out.append("Definition ex_assignment_eqb (a b : ex_assignment) : bool :=\n  "
               "ex_expr_eqb (ex_assignment_target a) (ex_assignment_target b) && "
               "ex_expr_eqb (ex_assignment_expression a) (ex_assignment_expression b).\n")
    # ---- Tensor.order (expression/ast.py)
    tcls = find_class(xtree, "Tensor")
    tens = [ct for ct in U.inds["ex_expr"] if ct.coq == "ExTensor"]
    if len(tens) != 1 or [f for f, _ in tens[0].fields] != ["name", "indexes"]:
        raise Unsupported(tcls, "fields of expression.ast.Tensor")
    for c in xtree.body:
        if isinstance(c, ast.ClassDef) and c.name != "Tensor" and method_of(c, "order", required=False) is not None:
            raise Unsupported(c, "another class of expression/ast.py defines `order`")
    oprop = method_of(tcls, "order")
    plain_self_method(oprop, ["property"])
    env = PEnv(vt, "call")
    for fn, ty in tens[0].fields:
        env.self_attrs[fn] = (f"self_{fn}", ty)
    body = body_without_doc(oprop)
    if len(body) != 1 or not isinstance(body[0], ast.Return) or body[0].value is None:
        raise Unsupported(oprop, "body of Tensor.order")
    t, ty = vt.pure(body[0].value, env)
    vt.need(ty, "Z", oprop)
    out.append("(* expression.ast.Tensor.order; the other classes have no such attribute *)")
    out.append(f"Definition Tensor_order (self : ex_expr) : pyres Z :=\n  match self with\n"
               f"  | ExTensor self_name self_indexes => Ret {t}\n  | _ => Raise (builtin_exc \"AttributeError\")\n  end.\n")
    vt.ex_props["order"] = ("Tensor_order", "Z")
    # ---- Assignment.__post_init__ / variable_orders
    post = method_of(acls, "__post_init__")
    plain_self_method(post)
    stores = [n for n in ast.walk(acls) if isinstance(n, ast.Call) and ast.unparse(n.func) in ("object.__setattr__", "setattr")]
    if len(stores) != 1 or not any(n is stores[0] for n in ast.walk(post)):
        raise Unsupported(acls, "expected exactly one object.__setattr__ in Assignment, inside __post_init__")
    env = PEnv(vt, "post_init")
    env.self_type = "ex_assignment"
    env.sites = number_sites(post)

    def finish_assignment(e_):
        if list(e_.stored) != ["_variable_orders"] or e_.stored["_variable_orders"][1] != "(pydict string Z)":
            raise Unsupported(post, "__post_init__ does not store a dict[str, int] in _variable_orders")
        return f"Ret {e_.stored['_variable_orders'][0]}"

    # attribute access on self in a __post_init__ goes through the "prop" path of VT.attribute
    env.method = "prop"
    body = _post_init_block(vt, post, env, finish_assignment)
    out.append("(* Assignment.__post_init__: [Ret d] = the object exists and d is what it stores in _variable_orders *)")
    out.append(f"Definition Assignment_post_init (self : ex_assignment) : pyres (pydict string Z) :=\n    {body}.\n")
    vo = method_of(acls, "variable_orders")
    plain_self_method(vo)
    vb = body_without_doc(vo)
    if len(vb) != 1 or not isinstance(vb[0], ast.Return) or ast.unparse(vb[0].value) != "self._variable_orders":
        raise Unsupported(vo, "Assignment.variable_orders is not `return self._variable_orders`")
    out.append("(* Assignment.variable_orders(): `return self._variable_orders` -- an Assignment object exists only if its\n"
               "   __post_init__ returned, and nothing else assigns the attribute: the stored dict is what __post_init__\n"
               "   computes from the fields (on a pair that is no object, the exception of __post_init__) *)")
    out.append("Definition Assignment_variable_orders (self : ex_assignment) : pyres (pydict string Z) :=\n"
               "    Assignment_post_init self.\n")
    # ---- Format.__post_init__ and the constructor
    fpost = method_of(fcls, "__post_init__")
    plain_self_method(fpost)
    env = PEnv(vt, "prop")
    env.self_type = "Format"
    env.sites = number_sites(fpost)
    body = _post_init_block(vt, fpost, env, lambda e_: "Ret tt")
    out.append(f"Definition Format_post_init (self : Format) : pyres unit :=\n    {body}.\n")
    out.append("(* Format(modes, ordering): the dataclass __init__, then __post_init__ *)")
    out.append("Definition Format_new (modes : list Mode) (ordering : list Z) : pyres Format :=\n"
               "    let self := MkFormat modes ordering in rbind (Format_post_init self) (fun _ => Ret self).\n")
    vt.ctors["Format"] = ("Format_new", [ty for _, ty in ffields])
    # ---- Problem.__post_init__, constructor, __eq__, __hash__
    ppost = method_of(pcls, "__post_init__")
    plain_self_method(ppost)
    env = PEnv(vt, "prop")
    env.self_type = "Problem"
    env.sites = number_sites(ppost)
    body = _post_init_block(vt, ppost, env, lambda e_: "Ret tt")
    out.append(f"Definition Problem_post_init (self : Problem) : pyres unit :=\n    {body}.\n")
    out.append("(* Problem(assignment, formats): the dataclass __init__, then __post_init__ *)")
    out.append("Definition Problem_new (assignment : ex_assignment) (formats : pydict string Format) : pyres Problem :=\n"
               "    let self := MkProblem assignment formats in rbind (Problem_post_init self) (fun _ => Ret self).\n")
    vt.ctors["Problem"] = ("Problem_new", [ty for _, ty in pfields])
    for m in pcls.body:
        if isinstance(m, ast.FunctionDef) and m.name not in ("__post_init__", "__eq__", "__hash__"):
            raise Unsupported(m, "method of Problem")
    eq = method_of(pcls, "__eq__")
    a = eq.args
    if [x.arg for x in a.args] != ["self", "other"] or a.vararg or a.kwarg or a.kwonlyargs or a.defaults or eq.decorator_list:
        raise Unsupported(eq, "signature of Problem.__eq__")
    eb = body_without_doc(eq)
    ok = (len(eb) == 1 and isinstance(eb[0], ast.If) and ast.unparse(eb[0].test) == "isinstance(other, Problem)"
          and len(eb[0].body) == 1 and isinstance(eb[0].body[0], ast.Return) and eb[0].body[0].value is not None
          and len(eb[0].orelse) == 1 and isinstance(eb[0].orelse[0], ast.Return)
          and ast.unparse(eb[0].orelse[0].value) == "NotImplemented")
    if not ok:
        raise Unsupported(eq, "Problem.__eq__ is not `if isinstance(other, Problem): return <e> else: return NotImplemented`")
    env = PEnv(vt, "prop")
    env.self_type = "Problem"
    env.types["other"] = "Problem"
    t, ty = vt.pure(eb[0].body[0].value, env)
    vt.need(ty, "bool", eq)
    out.append("(* Problem.__eq__ on another Problem (anything else: NotImplemented, i.e. unequal) *)")
    out.append(f"Definition Problem_eq (self other : Problem) : bool :=\n    {t}.\n")
    hs = method_of(pcls, "__hash__")
    plain_self_method(hs)
    hb = body_without_doc(hs)
    ok = (len(hb) == 1 and isinstance(hb[0], ast.Return) and isinstance(hb[0].value, ast.Call)
          and isinstance(hb[0].value.func, ast.Name) and hb[0].value.func.id == "hash" and len(hb[0].value.args) == 1
          and not hb[0].value.keywords)
    if not ok:
        raise Unsupported(hs, "Problem.__hash__ is not `return hash(<e>)`")
    env = PEnv(vt, "prop")
    env.self_type = "Problem"
    t, ty = vt.pure(hb[0].value.args[0], env)
    out.append("(* Problem.__hash__: the value handed to hash() *)")
    out.append(f"Definition Problem_hash_key (self : Problem) : {ty} :=\n    {t}.")
    out.append(f"Definition Problem_hash_key_eqb : {ty} -> {ty} -> bool := {vt.eqb(ty, hs)}.\n")
    # ---- make_problem
    mk = [n for n in ptree.body if isinstance(n, ast.FunctionDef) and n.name == "make_problem"]
    if len(mk) != 1:
        raise Unsupported(ast.Constant("make_problem"), "function not found")
    mk = mk[0]
    a = mk.args
    if [x.arg for x in a.args] != ["assignment", "formats"] or a.vararg or a.kwarg or a.kwonlyargs or a.defaults \
            or mk.decorator_list or mk.returns is None or not ast.unparse(mk.returns).startswith("Result[Problem, "):
        raise Unsupported(mk, "signature of make_problem")
    if not any(isinstance(n, ast.ImportFrom) and n.module == "returns.result"
               and {x.name for x in n.names} >= {"Failure", "Success"} for n in ptree.body):
        raise Unsupported(ast.Constant("returns.result"), "Success / Failure are not those of returns.result")
    env = PEnv(vt, "fn")
    env.sites = number_sites(mk)
    env.types["assignment"] = vt.ann_type(a.args[0].annotation, mk)
    env.types["formats"] = vt.ann_type(a.args[1].annotation, mk)
    vt.ret_ok = "Problem"
    body = vt.block(body_without_doc(mk), env, lambda e_: (_ for _ in ()).throw(Unsupported(mk, "falls off the end")))
    out.append("(* make_problem: [Ret (inl p)] = Success(p), [Ret (inr e)] = Failure(e), [Raise e] = an exception *)")
    out.append(f"Definition make_problem (assignment : ex_assignment) (formats : pydict string Format) "
               f": pyres (Problem + pyexc) :=\n    {body}.\n")
    vt.funcs["make_problem"] = ("make_problem", ["ex_assignment", "(pydict string Format)"], "(Problem + pyexc)")
    vt.ret_ok = None
    # ---- tensor.Tensor.format
    ttree = ast.parse((src / "tensora/tensor.py").read_text())
    tcl = find_class(ttree, "Tensor")
    fprop = method_of(tcl, "format")
    plain_self_method(fprop, ["property"])
    if fprop.returns is None or ast.unparse(fprop.returns) != "Format":
        raise Unsupported(fprop, "annotation of Tensor.format")
    fb = body_without_doc(fprop)
    if len(fb) != 1 or not isinstance(fb[0], ast.Return) or fb[0].value is None:
        raise Unsupported(fprop, "body of Tensor.format")
    env = PEnv(vt, "call")
    for attr, ty in vt.tensor_attrs:
        env.self_attrs[attr] = (f"self_{attr}", ty)
    t, ty = vt.expr(fb[0].value, env)
    binds = env.take()
    vt.need(ty, "Format", fprop)
    pat = " ".join(f"self_{attr}" for attr, _ in vt.tensor_attrs)
    out.append("(* tensor.Tensor.format (a property); any other object has no such attribute *)")
    out.append(f"Definition Tensor_format (self : pyarg) : pyres Format :=\n  match self with\n"
               f"  | PyTensor {pat} =>\n    {wrap(binds, f'Ret {t}')}\n  | PyOther => Raise (builtin_exc \"AttributeError\")\n  end.\n")
    vt.arg_props["format"] = ("Tensor_format", "Format")
    # ---- compile/_porcelain.py
    out.append(gen_porcelain(src, vt))
    # ---- the exception classes that are raised by name / caught
    known = {}
    for rel in ("tensora/problem.py", "tensora/expression/_exceptions.py", "tensora/format/_exceptions.py"):
        for nm, bases in exception_classes(ast.parse((src / rel).read_text())).items():
            if nm in known:
                raise Unsupported(ast.Constant(nm), "exception class defined twice")
            known[nm] = bases
    for nm in sorted(vt.raised | vt.caught):
        if nm in BUILTIN_EXC:
            if nm in vt.caught:
                raise Unsupported(ast.Constant(nm), "except clause naming a builtin class")
            continue
        if known.get(nm) != ["Exception"]:
            raise Unsupported(ast.Constant(nm), "an exception class that is not defined with the single base Exception")
    return "\n".join(out)


def _post_init_block(vt: PT, fn: ast.FunctionDef, env: PEnv, k) -> str:
    """the body of a __post_init__: `self.f` are the fields; object.__setattr__(self, ...) may end it"""

    class _Mode:
        pass

    # VT.attribute reads self.<field> when method == "prop"; the object.__setattr__ idiom asks for "post_init"
    orig = PT.block

    def block(self_, stmts, e_, k_):
        if stmts and isinstance(stmts[0], ast.Expr) and isinstance(stmts[0].value, ast.Call) \
                and ast.unparse(stmts[0].value.func) == "object.__setattr__":
            e_.method = "post_init"
            try:
                return orig(self_, stmts, e_, k_)
            finally:
                e_.method = "prop"
        if stmts and isinstance(stmts[0], ast.Return):
            raise Unsupported(stmts[0], "return in __post_init__")
        return orig(self_, stmts, e_, k_)

    vt.block = block.__get__(vt, PT)
    try:
        return vt.block(body_without_doc(fn), env, k)
    finally:
        del vt.block


def gen_porcelain(src: Path, vt: PT) -> str:
    """compile/_porcelain.py: what the entry points do between parsing and the (cached) TensorMethod.

    evaluate_tensora / evaluate_cffi(assignment, output_format, **inputs):
        parsed_assignment = parse_assignment(assignment).alt(raise_exception).unwrap()      -- parameter (parser: C12)
        <statements>                                                                          -- translated
        <v> = parse_format(output_format).alt(raise_exception).unwrap()                       -- parameter: the OUTCOME
        <statements>                                                                             of the call, at its place
        problem = make_problem(parsed_assignment, formats).alt(raise_exception).unwrap()      -- translated
        function = cachable_tensor_method(problem, BackendCompiler.<x>)                       -- C15's cache / C10
        return function(**inputs)
    """
    tree = ast.parse((src / "tensora/compile/_porcelain.py").read_text())
    for mod, name in (("problem", "make_problem"), ("tensor", "Tensor"), ("format", "parse_format"),
                      ("expression", "parse_assignment")):
        if not imports_name(tree, mod, name):
            raise Unsupported(ast.Constant(name), f"_porcelain.py does not import {name} from ..{mod}")
    if not any(isinstance(n, ast.ImportFrom) and n.module == "returns.functions" and any(a.name == "raise_exception" for a in n.names)
               for n in tree.body):
        raise Unsupported(ast.Constant("raise_exception"), "raise_exception is not that of returns.functions")
    fns = {n.name: n for n in tree.body if isinstance(n, ast.FunctionDef)}
    out = []
    texts = {}
    for name in ("evaluate_tensora", "evaluate_cffi"):
        if name not in fns:
            raise Unsupported(ast.Constant(name), "function not found")
        fn = fns[name]
        a = fn.args
        if [x.arg for x in a.args] != ["assignment", "output_format"] or a.vararg or not a.kwarg or a.kwonlyargs \
                or a.defaults or fn.decorator_list or ast.unparse(a.kwarg.annotation or ast.Constant(0)) != "Tensor":
            raise Unsupported(fn, f"signature of {name}")
        inputs = a.kwarg.arg
        body = body_without_doc(fn)
        if len(body) < 4:
            raise Unsupported(fn, "body")
        first = body[0]
        if not (isinstance(first, ast.Assign) and len(first.targets) == 1 and isinstance(first.targets[0], ast.Name)
                and ast.unparse(first.value) == "parse_assignment(assignment).alt(raise_exception).unwrap()"):
            raise Unsupported(first, "first statement is not the parsing of the assignment")
        pa = first.targets[0].id
        tail = body[-2:]
        ok = (isinstance(tail[0], ast.Assign) and len(tail[0].targets) == 1 and isinstance(tail[0].targets[0], ast.Name)
              and isinstance(tail[0].value, ast.Call) and ast.unparse(tail[0].value.func) == "cachable_tensor_method"
              and len(tail[0].value.args) == 2 and isinstance(tail[0].value.args[0], ast.Name)
              and ast.unparse(tail[0].value.args[1]).startswith("BackendCompiler.")
              and isinstance(tail[1], ast.Return)
              and ast.unparse(tail[1].value) == f"{tail[0].targets[0].id}(**{inputs})")
        if not ok:
            raise Unsupported(tail[0], "tail is not `f = cachable_tensor_method(problem, BackendCompiler.x); return f(**inputs)`")
        result = tail[0].value.args[0].id
        middle = body[1:-2]
        env = PEnv(vt, "glue")
        env.types[pa] = "ex_assignment"
        env.types[inputs] = "(pydict string pyarg)"
        # the parse_format step: replaced by its outcome, bound where the call stands
        stmts = []
        seen = 0
        for s in middle:
            if isinstance(s, ast.Assign) and len(s.targets) == 1 and isinstance(s.targets[0], ast.Name) \
                    and ast.unparse(s.value) == "parse_format(output_format).alt(raise_exception).unwrap()":
                seen += 1
                new = ast.Assign(targets=s.targets, value=ast.Name(id="parse_output_format_", ctx=ast.Load()))
                ast.copy_location(new, s)
                ast.fix_missing_locations(new)
                stmts.append(new)
            else:
                for n in ast.walk(s):
                    if isinstance(n, ast.Name) and n.id in ("assignment", "output_format", "parse_format", "parse_assignment"):
                        raise Unsupported(s, "the unparsed texts are used outside the two parser calls")
                stmts.append(s)
        if seen != 1:
            raise Unsupported(fn, "expected exactly one `parse_format(output_format).alt(raise_exception).unwrap()`")
        env.types["parse_output_format_"] = "pyres_Format_"
        env.sites = number_sites(fn)

        def finish(e_, result=result):
            if e_.types.get(result) != "Problem":
                raise Unsupported(fn, f"`{result}` is not a Problem")
            return f"Ret {safe(result)}"

        texts[name] = (_glue_block(vt, stmts, env, finish), pa, inputs)
    t0 = texts["evaluate_tensora"]
    out.append("(* evaluate_tensora(assignment, output_format, **inputs) from after parse_assignment up to the problem handed to\n"
               "   cachable_tensor_method; [parse_output_format_] = the outcome of parse_format(output_format)...unwrap() *)")
    out.append(f"Definition evaluate_problem ({safe(t0[1])} : ex_assignment) (parse_output_format_ : pyres Format) "
               f"({safe(t0[2])} : pydict string pyarg) : pyres Problem :=\n    {t0[0]}.\n")
    t1 = texts["evaluate_cffi"]
    out.append("(* evaluate_cffi: the same statements (only the backend differs) *)")
    out.append(f"Definition evaluate_cffi_problem ({safe(t1[1])} : ex_assignment) (parse_output_format_ : pyres Format) "
               f"({safe(t1[2])} : pydict string pyarg) : pyres Problem :=\n    {t1[0]}.\n")
    # evaluate = evaluate_tensora
    ev = fns.get("evaluate")
    if ev is None or len(body_without_doc(ev)) != 1 or \
            ast.unparse(body_without_doc(ev)[0]) != f"return evaluate_tensora(assignment, output_format, **{ev.args.kwarg.arg if ev.args.kwarg else ''})":
        raise Unsupported(ev or ast.Constant("evaluate"), "evaluate is not `return evaluate_tensora(assignment, output_format, **inputs)`")
    # tensor_method(assignment, formats, backend)
    tm = fns.get("tensor_method")
    if tm is None:
        raise Unsupported(ast.Constant("tensor_method"), "function not found")
    a = tm.args
    if [x.arg for x in a.args] != ["assignment", "formats", "backend"] or a.vararg or a.kwarg or a.kwonlyargs or tm.decorator_list:
        raise Unsupported(tm, "signature of tensor_method")
    tb = body_without_doc(tm)
    want = ["parsed_assignment = parse_assignment(assignment).alt(raise_exception).unwrap()",
            "parsed_formats = {name: parse_format(format).alt(raise_exception).unwrap() for name, format in formats.items()}",
            None,
            "return cachable_tensor_method(problem, backend)"]
    if len(tb) != 4 or any(w is not None and ast.unparse(s) != w for s, w in zip(tb, want)):
        raise Unsupported(tm, "tensor_method is not parse_assignment; {name: parse_format(...)}; make_problem; cachable_tensor_method")
    env = PEnv(vt, "glue")
    env.types["parsed_assignment"] = "ex_assignment"
    env.types["parsed_formats"] = "(pydict string Format)"
    env.sites = number_sites(tm)

    def finish_tm(e_):
        if e_.types.get("problem") != "Problem":
            raise Unsupported(tm, "`problem` is not a Problem")
        return "Ret problem"

    t2 = _glue_block(vt, [tb[2]], env, finish_tm)
    out.append("(* tensor_method(assignment, formats, backend) between the parsers and cachable_tensor_method;\n"
               "   [parsed_formats] = {name: parse_format(format)...unwrap()}: same keys, same order *)")
    out.append(f"Definition tensor_method_problem (parsed_assignment : ex_assignment) (parsed_formats : pydict string Format) "
               f": pyres Problem :=\n    {t2}.\n")
    # the cache key
    ct = fns.get("cachable_tensor_method")
    if ct is None or [ast.unparse(d) for d in ct.decorator_list] != ["lru_cache"] \
            or [x.arg for x in ct.args.args] != ["problem", "backend"] \
            or [ast.unparse(s) for s in body_without_doc(ct)] != ["return TensorMethod(problem, backend=backend)"]:
        raise Unsupported(ct or ast.Constant("cachable_tensor_method"),
                          "cachable_tensor_method is not `@lru_cache def f(problem, backend): return TensorMethod(problem, backend=backend)`")
    return "\n".join(out)


def _glue_block(vt: PT, stmts, env: PEnv, k) -> str:
    """statements of an entry point: `x = parse_output_format_` binds the outcome of the library step"""
    orig = PT.block

    def block(self_, ss, e_, k_):
        if ss and isinstance(ss[0], ast.Assign) and isinstance(ss[0].value, ast.Name) and ss[0].value.id == "parse_output_format_":
            nm = ss[0].targets[0].id
            if nm in e_.types:
                raise Unsupported(ss[0], "the parsed format re-uses a name")
            e_.types[nm] = "Format"
            return f"rbind parse_output_format_ (fun {safe(nm)} =>\n    {self_.block(ss[1:], e_, k_)})"
        if ss and isinstance(ss[0], ast.Return):
            raise Unsupported(ss[0], "return")
        return orig(self_, ss, e_, k_)

    vt.block = block.__get__(vt, PT)
    try:
        return vt.block(list(stmts), env, k)
    finally:
        del vt.block


def targets(src: Path) -> dict:
    return {FILE: lambda: gen_problem(src)}
