"""Driver: ./check <Cxx> [--tier quick|thorough] [--replay FILE]"""
import argparse
import importlib
import json
import os
import sys
import traceback
from pathlib import Path

sys.path.insert(0, str(Path(__file__).resolve().parent))
from vlib.core import Check, VERIF  # noqa: E402


def main():
    ap = argparse.ArgumentParser()
    ap.add_argument("prop")
    ap.add_argument("--tier", default=os.environ.get("VERIF_TIER", "quick"))
    ap.add_argument("--replay", default=None)
    a = ap.parse_args()
    tier = a.tier if a.tier in ("quick", "thorough") else "quick"
    try:
        seed = int(os.environ.get("VERIF_SEED", "0"))
    except ValueError:
        seed = 0
    chk = Check(a.prop, tier, seed)
    try:
        mod = importlib.import_module(f"props.{a.prop}")
    except ModuleNotFoundError:
        print(f"no check for {a.prop}")
        return 2
    try:
        if a.replay:
            payload = json.loads((VERIF / a.replay).read_text()) if not os.path.isabs(a.replay) else json.loads(Path(a.replay).read_text())
            return mod.replay(chk, payload)
        mod.run(chk)
    except Exception:
        tb = traceback.format_exc()
        chk.broken.append({"kind": "harness-exception", "traceback": tb[-3000:]})
        print(tb, file=sys.stderr)
    return chk.finish()


if __name__ == "__main__":
    sys.exit(main())
