"""Run the repository's baseline suite in a given tree (default /repo) and compare with
/root/.vp/BASELINE.json's stable_pass list.  Usage: baseline_check.py [repo_dir] [-n N]"""
import json
import os
import subprocess
import sys
import xml.etree.ElementTree as ET
from pathlib import Path

repo = sys.argv[1] if len(sys.argv) > 1 and not sys.argv[1].startswith("-") else "/repo"
par = []
if "-n" in sys.argv:
    par = ["-n", sys.argv[sys.argv.index("-n") + 1]]
base = json.load(open("/root/.vp/BASELINE.json"))
out = Path("/verif/build/baseline.junit.xml")
out.parent.mkdir(exist_ok=True)
env = dict(os.environ)
env.pop("TENSORA_VERIF_INITIAL_CAPACITY", None)
cmd = ["/venv/bin/python", "-m", "pytest", "-ra", "-q", "-p", "no:cacheprovider", "--timeout=900",
       "--continue-on-collection-errors", f"--junitxml={out}"] + par
p = subprocess.run(cmd, cwd=repo, env=env, capture_output=True, text=True)
print(p.stdout.strip().splitlines()[-1])
passed = set()
for tc in ET.parse(out).getroot().iter("testcase"):
    ok = not any(ch.tag in ("failure", "error", "skipped") for ch in tc)
    if ok:
        passed.add(f"{tc.get('classname')}::{tc.get('name')}")
missing = [t for t in base["stable_pass"] if t not in passed]
print(f"stable_pass={len(base['stable_pass'])} passed_now={len(passed)} missing={len(missing)}")
for m in missing[:20]:
    print("MISSING", m)
sys.exit(1 if missing else 0)
